"""C10 second domain / C07 (a): closed CFGs decorated with AST payloads (one marker statement per block, an opaque test
for two-way blocks, a return for exits), restructured and sent through SCFG2AST - reaches graph shapes no source
program produces (irreducible loops, exits into sibling arms)."""
from __future__ import annotations

import ast
from typing import Any, Dict, List

from .record import exc_sig


def decorate(g: List[List[int]]) -> Any:
    from numba_scfg.core.datastructures.basic_block import PythonASTBlock
    from numba_scfg.core.datastructures.scfg import SCFG

    blocks = {}
    for u, ss in enumerate(g):
        tree: List[Any] = [ast.Expr(ast.Call(ast.Name("ev", ast.Load()), [ast.Constant(u)], []))]
        if len(ss) == 2:
            tree.append(ast.Name("c%d" % u, ast.Load()))
        elif len(ss) == 0:
            tree.append(ast.Return(ast.Name("r%d" % u, ast.Load())))
        blocks[str(u)] = PythonASTBlock(name=str(u), _jump_targets=tuple(str(v) for v in ss), tree=tree)
    return SCFG(graph=blocks)


def pipeline_graph(g: List[List[int]]) -> Dict[str, Any]:
    from numba_scfg.core.datastructures.ast_transforms import SCFG2ASTTransformer
    from numba_scfg.core.datastructures.basic_block import SyntheticAssignment

    from .srcpipe import MalformedOutput, SkeletonError, skeleton_of

    out: Dict[str, Any] = {"outcome": "ok", "stage": "", "exc": "", "census": {}, "flat": {}, "skeleton": [], "skexc": "", "H": {}, "root": ""}
    try:
        out["stage"] = "build"
        scfg = decorate(g)
        ids: Dict[int, int] = {}
        keep: List[Any] = []

        def nid(node: Any) -> int:
            if id(node) not in ids:
                ids[id(node)] = len(ids) + 1
                keep.append(node)
            return ids[id(node)]

        blocks: Dict[str, List[int]] = {}
        ret_units: Dict[str, List[List[int]]] = {}
        tests: Dict[str, int] = {}
        flat: Dict[str, Any] = {}
        for name, b in scfg.graph.items():
            units, funits = [], []
            for k, node in enumerate(b.tree):
                if k == len(b.tree) - 1 and len(b._jump_targets) == 2:
                    tests[name] = nid(node)
                elif isinstance(node, ast.Return):
                    units.append(nid(node))
                    ret_units.setdefault(name, []).append([nid(node), nid(node.value)])
                    funits.append(["R", nid(node.value)])
                else:
                    units.append(nid(node))
                    funits.append(["S", nid(node)])
            blocks[name] = units
            flat[name] = {"units": funits, "test": tests.get(name, 0), "jt": list(b._jump_targets)}
        out["flat"] = flat
        out["stage"] = "restructure"
        scfg.restructure()
        from .project import project

        st = project(scfg)
        out["H"], out["root"] = st["H"], st["root"]
        out["stage"] = "scfg2ast"
        original = ast.parse("def f():\n    pass\n").body[0]
        fdef = SCFG2ASTTransformer().transform(original=original, scfg=scfg)
        out["stage"] = "skeleton"
        try:
            out["skeleton"] = skeleton_of(fdef, ids)
        except SkeletonError as e:
            out["skexc"] = str(e)
        except MalformedOutput:
            out["outcome"] = "internal"
            out["exc"] = "MalformedAST@SCFG2AST"
            return out
        out["stage"] = "compile"
        text = ast.unparse(ast.fix_missing_locations(ast.Module(body=[fdef], type_ignores=[])))
        compile(text, "<regenerated>", "exec")
        out["stage"] = "done"
        emitted, iftests, retvals, emit_asg = [], [], [], []
        for node in ast.walk(fdef):
            if id(node) in ids and isinstance(node, ast.stmt):
                emitted.append(ids[id(node)])
            if isinstance(node, ast.If) and id(node.test) in ids:
                iftests.append(ids[id(node.test)])
            if isinstance(node, ast.Assign) and id(node) not in ids and len(node.targets) == 1 and isinstance(node.targets[0], ast.Name):
                tn = node.targets[0].id
                if tn == "__scfg_return_value__":
                    retvals.append(ids[id(node.value)] if id(node.value) in ids else 0)
                elif tn.startswith("__scfg_") and isinstance(node.value, ast.Constant) and isinstance(node.value.value, int) and not isinstance(node.value.value, bool):
                    emit_asg.append([tn, int(node.value.value)])
        exp_asg = []
        for _, b in scfg:
            if isinstance(b, SyntheticAssignment):
                exp_asg += [[str(k), int(v)] for k, v in b.variable_assignment.items()]
        orig_names = {"ev", "f"} | {"c%d" % u for u in range(len(g))} | {"r%d" % u for u in range(len(g))}
        new_names = {n.id for n in ast.walk(fdef) if isinstance(n, ast.Name)} - orig_names
        outside = sorted(n for n in new_names if not (n.startswith("__scfg_") and n.endswith("__")))
        out["census"] = {"blocks": blocks, "ret_units": ret_units, "tests": tests, "emitted": emitted, "iftests": iftests, "retvals": retvals,
                         "emit_asg": emit_asg, "exp_asg": exp_asg, "outside": outside}
    except NotImplementedError as e:
        out["outcome"] = "refused"
        out["exc"] = exc_sig(e)
    except Exception as e:
        out["outcome"] = "internal"
        out["exc"] = exc_sig(e)
    return out
