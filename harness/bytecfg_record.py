"""C09 recorder (stdlib only, runs under every interpreter version the package supports):
   python bytecfg_record.py corpus <out.json> [stride offset]   - real functions of the standard library
   python bytecfg_record.py synth <in.json> <out.json>          - synthetic instruction streams (E3)
Each output record: {"id", "stream": [{"off","size","cls","tgt"}...], "blocks": [{"b","e","tg":[...]}...], "exc"}."""
from __future__ import annotations

import dis
import json
import opcode
import os
import sys
import types

HERE = os.path.dirname(os.path.dirname(os.path.abspath(__file__)))
sys.path.insert(0, HERE)
sys.path.insert(0, os.environ.get("VERIF_REPO", "/repo"))

UNCOND = {"JUMP_FORWARD", "JUMP_BACKWARD", "JUMP_BACKWARD_NO_INTERRUPT", "JUMP_ABSOLUTE", "JUMP", "JUMP_NO_INTERRUPT"}
JUMPS = set(dis.hasjrel) | set(dis.hasjabs)
CACHES = getattr(opcode, "_inline_cache_entries", None)


def ncaches(op: int) -> int:
    if CACHES is None:
        return 0
    try:
        return CACHES[op] if not isinstance(CACHES, dict) else CACHES.get(opcode.opname[op], 0)
    except Exception:
        return 0


def classify(opname: str, op: int) -> str:
    """Class of an opcode from the running interpreter's own metadata."""
    if op in JUMPS:
        return "jump" if opname in UNCOND else "cond"
    if opname.startswith("RETURN_") and opname != "RETURN_GENERATOR":
        return "ret"
    return "seq"


def stream_of(fn) -> list:
    out = []
    for ins in dis.get_instructions(fn):
        cls = classify(ins.opname, ins.opcode)
        out.append({"off": ins.offset, "size": 2 * (1 + ncaches(ins.opcode)), "cls": cls,
                    "tgt": int(ins.argval) if cls in ("cond", "jump") else -1, "op": ins.opname})
    return out


def blocks_of(scfg, bcmap=None) -> list:
    begin = {name: getattr(b, "begin", -9) for name, b in scfg.graph.items()}
    out = []
    for name, b in scfg.graph.items():
        rec = {"b": getattr(b, "begin", -9), "e": getattr(b, "end", -9), "tg": [begin.get(t, -7) for t in b._jump_targets], "name": name}
        if bcmap is not None and hasattr(b, "get_instructions"):
            rec["ins"] = [int(i.offset) for i in b.get_instructions(bcmap)]      # what the block hands out as its content
        out.append(rec)
    out.sort(key=lambda r: r["b"])
    return out


def exc_sig(e: BaseException) -> str:
    import traceback

    tb = traceback.extract_tb(e.__traceback__)
    where = ""
    for fr in reversed(tb):
        if "numba_scfg" in fr.filename:
            where = "%s:%d" % (os.path.basename(fr.filename), fr.lineno)
            break
    return "%s@%s" % (type(e).__name__, where)


def record_function(ident: str, fn) -> dict:
    from numba_scfg.core.datastructures.byte_flow import ByteFlow

    rec = {"id": ident, "stream": stream_of(fn), "blocks": [], "exc": ""}
    try:
        flow = ByteFlow.from_bytecode(fn)
        from numba_scfg.core.datastructures.scfg import SCFG

        rec["blocks"] = blocks_of(flow.scfg, SCFG.bcmap_from_bytecode(flow.bc))
    except Exception as e:
        rec["exc"] = exc_sig(e)
        return [rec]
    # the graph is a function of the bytecode alone: use the first graph (restructure it in place), then build again
    rec2 = {"id": ident + "#rebuilt-after-restructure", "stream": rec["stream"], "blocks": [], "exc": ""}
    try:
        flow.scfg.restructure()
    except Exception:
        pass
    try:
        rec2["blocks"] = blocks_of(ByteFlow.from_bytecode(fn).scfg)
    except Exception as e:
        rec2["exc"] = exc_sig(e)
    return [rec, rec2]


def record_synth(case: dict) -> dict:
    from numba_scfg.core.datastructures.flow_info import FlowInfo

    stream = case["stream"]
    targets = {i["tgt"] for i in stream if i["cls"] in ("cond", "jump")}
    fake = [types.SimpleNamespace(offset=i["off"], opname=i["op"], argval=i["tgt"] if i["tgt"] >= 0 else None,
                                  is_jump_target=(i["off"] in targets)) for i in stream]
    rec = {"id": case["id"], "stream": stream, "blocks": [], "exc": ""}
    try:
        scfg = FlowInfo.from_bytecode(fake).build_basicblocks()
        rec["blocks"] = blocks_of(scfg)
    except Exception as e:
        rec["exc"] = exc_sig(e)
    return rec


def opcode_table() -> dict:
    """Jump / return opcodes the running interpreter can emit in functions without generators (real opcodes only)."""
    cond, jump, ret = [], [], []
    for name, op in opcode.opmap.items():
        if op >= 256 or name in ("SEND", "JUMP_BACKWARD_NO_INTERRUPT", "RETURN_GENERATOR"):
            continue
        c = classify(name, op)
        if c == "cond":
            cond.append({"op": name, "size": 2 * (1 + ncaches(op))})
        elif c == "jump":
            jump.append({"op": name, "size": 2 * (1 + ncaches(op))})
        elif c == "ret":
            ret.append({"op": name, "size": 2})
    return {"cond": sorted(cond, key=lambda x: x["op"]), "jump": sorted(jump, key=lambda x: x["op"]), "ret": sorted(ret, key=lambda x: x["op"]),
            "version": list(sys.version_info[:2])}


def main() -> None:
    mode = sys.argv[1]
    if mode == "corpus":
        from harness import corpus

        out = sys.argv[2]
        stride = int(sys.argv[3]) if len(sys.argv) > 3 else 1
        offset = int(sys.argv[4]) if len(sys.argv) > 4 else 0
        recs = [r for i, f in corpus.corpus(stride=stride, offset=offset) for r in record_function(i, f)]
        with open(out, "w") as f:
            json.dump(recs, f, separators=(",", ":"))
    elif mode == "synth":
        with open(sys.argv[2]) as f:
            cases = json.load(f)
        with open(sys.argv[3], "w") as f:
            json.dump([record_synth(c) for c in cases], f, separators=(",", ":"))
    elif mode == "optable":
        print(json.dumps(opcode_table()))
    else:
        raise SystemExit("unknown mode")


if __name__ == "__main__":
    main()
