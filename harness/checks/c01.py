"""C01 - restructuring preserves every execution path (Walk.tla, both walks, every stage)."""
from __future__ import annotations

import json

from .. import rb, tlc
from ..common import Report, parse_args
from .stagefam import STAGE_ORDER
from .walkfam import explore

PROP = "C01"


def main(argv):
    args = parse_args(PROP, argv)
    rep = Report(PROP, args.tier, args.seed, "model_checking")
    if args.replay:
        with open(args.replay) as f:
            inputs = [json.load(f)["input"]["id"]]
        rep.replay_only = args.replay
    else:
        inputs = rb.domain_inputs(args.tier, args.seed, "XRBSKLV")
    d = rb.workdir(PROP)
    try:
        res = rb.record_domain(inputs, d, jobs=args.jobs, shards=args.jobs, stages=True, heavy=70)
        out = explore(res, args.jobs)
        if not args.replay:
            from . import designfam

            designfam.attach_walk(rep, PROP, args.tier, d, args.jobs)
            # the same exploration on graphs that are HELD while a copy of them, made through the dictionary form, is restructured further:
            # every path of the original must still be there in the held graph (record.py, fork_between)
            import os

            fin = rb.domain_inputs("quick", args.seed + 3, "XR", scale=0.25 if args.tier == "quick" else 1.0)
            res3 = rb.record_domain(fin, os.path.join(d, "fork"), jobs=args.jobs, shards=args.jobs, stages=True, reload="fork", heavy=70)
            out3 = explore(res3, args.jobs)
            for v in out3["viol"]:
                v["id"] = dict(v["id"], fork=True)
            out["viol"] = list(out["viol"]) + list(out3["viol"])
            out["states"] += out3["states"]
            out["generated"] += out3["generated"]
            rep.coverage["held_while_copy_is_restructured"] = {"behaviours": sum(r["ncases"] for r in res3), "product_states": out3["states"]}
    finally:
        tlc.cleanup(d)
    for v in out["viol"]:
        # a walk that cannot be steered (control variable unset / out of range / stale) does not reach the original successor either:
        # it is C06's clause AND a lost path
        rep.violation(v["bad"].replace("BAD:C06-", "BAD:cannot-steer/"), {"id": v["id"], "stage": STAGE_ORDER[v["sid"] - 1], "mode": v["mode"]}, detail={"decision_path_blocks": v["path"], "env": v["env"]})
    summ = [s for r in res for s in r["summary"]]
    ok = [s for s in summ if s.get("build") == "ok"]
    nt = [s for s in ok if s["nbranching"] > 0]
    rep.coverage.update({
        "states": out["states"], "transitions": out["generated"], "max_depth": out["depth"],
        "traces_validated_against_impl": len(ok), "evaluations": len(inputs),
        "distinct_nontrivial": len({json.dumps(s["id"], sort_keys=True) for s in nt}),
        "rule": "product exploration (Walk.tla) of every recorded stage state of every behaviour, in by-name and region-wise mode, to fix-point; "
                "inputs: closed CFGs <=4 nodes (all), 5 nodes modulo relabelling, seeded random 6-18 nodes, std-lib bytecode; "
                "non-trivial = the result contains at least one branching synthetic block (control variables steer the walk)",
        "exhaustive": False,
        "aborted_behaviours": sum(1 for s in ok if s["exc"]),
        "samples": [s["id"] for s in nt[:3]],
    })
    rep.assumptions += ["TLC explores each per-instance product to fix-point (finite); instances are enumerated/sampled as stated in rule",
                        "projection faithful (harness/project.py)"]
    if ok and not nt and not rep.violations:
        raise tlc.MachineryError("vacuous: no input produced a branching synthetic block")
    return rep.finish()
