"""C02 - restructuring accepts every closed CFG (terminates, never raises).

The real code is run on every input; TLC (Accept.tla) evaluates the trace-end
invariant NeverFails / Terminates / Completes on every recorded outcome, checks
every graph-domain input against the TLA+ definition of the closed-CFG domain,
and certifies that the recorded inputs with <= EXH nodes are exactly
ClosedCFG(1..EXH)."""
from __future__ import annotations

import json
import os

from .. import domains, rb, tlc
from ..common import Report, parse_args

PROP = "C02"
CFG = "INIT Init\nNEXT Next\nINVARIANT Holds\nCHECK_DEADLOCK FALSE\n"


def inputs_for(tier: str, seed: int):
    inputs = rb.domain_inputs(tier, seed, "RB", scale=4.0 if tier == "quick" else 2.0)
    # the same statement under other NAMES: names from the name generator's own namespace (block-, region- and variable-shaped),
    # names whose string order differs from the numeric one, and control-heavy graphs
    inputs += rb.domain_inputs("quick", seed, "NLK", scale=1.0 if tier == "quick" else 3.0)
    for n in (1, 2, 3, 4, 5):
        for g in domains.closed_cfgs(n):
            inputs.append({"dom": "X", "g": [list(s) for s in g]})
    # very long and very deep graphs, restructured under the interpreter's DEFAULT recursion limit
    for named in domains.giant_named():
        inputs.append({"dom": "N", "named": named, "giant": True})
    return inputs


def main(argv):
    args = parse_args(PROP, argv)
    rep = Report(PROP, args.tier, args.seed, "model_checking")
    if args.replay:
        with open(args.replay) as f:
            inputs = [json.load(f)["input"]["id"]]
        rep.replay_only = args.replay
    else:
        inputs = inputs_for(args.tier, args.seed)
    d = rb.workdir(PROP)
    try:
        res = rb.record_domain(inputs, d, jobs=args.jobs, shards=args.jobs, stages=False, cap=30)
        summ = [s for r in res for s in r["summary"]]
        # a timeout is believed only when reproduced
        for s in summ:
            if s["build"] == "timeout":
                again = rb.record_domain([s["id"]], os.path.join(d, "retry"), jobs=1, shards=1, stages=False, cap=900)
                s2 = again[0]["summary"][0]
                if s2["build"] != "timeout":
                    s.clear()
                    s.update(s2)
        cases = []
        small = []
        exh = 0 if args.replay else (4 if args.tier == "quick" else 5)
        for s in summ:
            if s["build"] in ("error", "refused", "notclosed"):
                continue
            exact = s["id"]["dom"] in ("X", "X5", "R")
            c = {"g": s["id"].get("g", []), "exact": exact, "exc": s.get("exc", "") if s["build"] != "timeout" else "", "timeout": s["build"] == "timeout",
                 "reached": s.get("reached", "input"), "ref": len(cases)}
            c["_id"] = s["id"]
            (small if (exact and s["id"]["dom"] == "X" and len(c["g"]) <= exh) else cases).append(c)
        shards = [small] + [cases[i::args.jobs - 1] for i in range(args.jobs - 1)]
        envs, index = [], []
        for k, sh in enumerate(shards):
            if not sh:
                continue
            p = os.path.join(d, "acc-%02d.json" % k)
            with open(p, "w") as f:
                json.dump([{x: c[x] for x in ("g", "exact", "exc", "timeout", "reached")} for c in sh], f, separators=(",", ":"))
            envs.append({"CASES": p, "EXH": str(exh if k == 0 else 0)})
            index.append(sh)
        results = tlc.run_shards("Accept", CFG, envs, jobs=args.jobs, workers=1, timeout=3000)
        tlc.require_ok(results, "Accept")
        # conformance (E2-ii): every primitive of every recorded behaviour against the Impl transcription
        from . import tracefam

        try:
            conf = tracefam.run_traces(tracefam.trace_inputs(args.tier, args.seed) if not args.replay else inputs, "drift", d, args.jobs)
        except tlc.MachineryError as e:
            # the Impl transcription could not even be evaluated on what the code did: that is drift, not a verdict and not a reason to hide one
            conf = {"behaviours": 0, "events": 0, "drift": [{"conformance_run_failed": str(e)[:300]}], "states": 0, "generated": 0}
        for x in conf["drift"]:
            rep.add_drift(x)
        if not args.replay:
            from . import designfam

            designfam.attach(rep, PROP, args.tier, d, args.jobs)
            from . import pipefam

            try:
                pipefam.attach(rep, args.tier, args.seed, d, args.jobs)
            except tlc.MachineryError as e:
                rep.add_drift({"pipeline_conformance_run_failed": str(e)[:300]})
    finally:
        tlc.cleanup(d)
    states = gen = 0
    for sh, tr in zip(index, results):
        states += tr.distinct
        gen += tr.generated
        if tr.distinct != len(sh) + 1:
            raise tlc.MachineryError("Accept evaluated %d states, expected %d" % (tr.distinct, len(sh) + 1))
        for v in tr.violations:
            st = tlc.parse_state(v["states"][0])
            for clause in st["bad"]:
                if clause.startswith("MACHINERY"):
                    raise tlc.MachineryError("Accept: %s (tid %s)" % (clause, st["tid"]))
                c = sh[st["tid"] - 1]
                rep.violation(clause, {"id": c["_id"]}, detail={"exc": c["exc"], "reached": c["reached"], "timeout": c["timeout"]},
                              signature={"exc": c["exc"]})
    ok = [s for s in summ if s["build"] in ("ok", "timeout")]
    nt = [s for s in ok if s.get("nblocks", 0) > s.get("n", 0) + 1]
    bydom = {}
    for s in ok:
        bydom[s["id"]["dom"]] = bydom.get(s["id"]["dom"], 0) + 1
    excluded = {}
    for s in summ:
        if s["build"] not in ("ok", "timeout"):
            k = "%s/%s" % (s["id"]["dom"], s["build"])
            excluded[k] = excluded.get(k, 0) + 1
    rep.coverage.update({
        "states": states + rep.coverage.get("states", 0) + conf["states"], "transitions": gen + rep.coverage.get("transitions", 0) + conf["generated"],
        "traces_validated_against_impl": len(ok) + conf["behaviours"], "evaluations": len(inputs),
        "distinct_nontrivial": len({json.dumps(s["id"], sort_keys=True) for s in nt}),
        "rule": "every closed CFG with <=5 nodes (all 89 655, the <=4-node part certified equal to ClosedCFG(N) by TLC, every graph checked against "
                "the TLA+ domain predicate), seeded random 6-18 node closed CFGs, std-lib bytecode CFGs, closed CFGs under names from the name generator's own namespace / names whose string order is not the numeric one, control-heavy CFGs, giant CFGs; each stage run separately; outcome judged by "
                "TLC (NeverFails, Terminates with a 30 s cap, believed only when a re-run alone on the machine exceeds 900 s, Completes); non-trivial = restructuring added >=2 blocks/regions",
        "exhaustive": True, "exhaustive_scope": "closed CFGs with <=5 nodes",
        "inputs_by_domain": bydom, "excluded_inputs": excluded,
        "conformance": {"behaviours": conf["behaviours"], "primitive_events": conf["events"], "drifting_events": len(conf["drift"]), "tlc_states": conf["states"]},
        "samples": [s["id"] for s in nt[:2]] + [s["id"] for s in nt[-2:]],
    })
    rep.assumptions += ["front-end graphs outside the closed-CFG domain are excluded (counted in excluded_inputs) - see DESIGN section 9",
                        "the 5-node enumeration is produced by the harness and every member is checked by TLC against ClosedG; its completeness is certified by TLC in the thorough tier"]
    return rep.finish()
