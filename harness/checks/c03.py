"""C03 - the restructured graph is structured (Props!Structured on every final state)."""
from .stagefam import run_family


def main(argv):
    return run_family(
        "C03", "C03", argv, "XRBSKL",
        nontrivial=lambda s: s["reached"] == "branches" and s["nblocks"] > s["n"] + 1,
        rule="closed CFGs: all with <=4 nodes, 5-node ones modulo relabelling (sampled in the quick tier), seeded random 6-18 nodes, "
             "std-lib bytecode CFGs; Structured is evaluated by TLC on the final state of every behaviour; non-trivial = the "
             "pipeline completed and created at least one region and one further block",
        level_text="",
    )
