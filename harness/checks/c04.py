"""C04 - the region hierarchy is self-consistent (Props!WellFormed on every stage state)."""
from .stagefam import run_family


def main(argv):
    return run_family(
        "C04", "C04", argv, "XRBS",
        nontrivial=lambda s: s["nblocks"] > s["n"] + 1,
        rule="closed CFGs: all with <=4 nodes, 5-node ones modulo relabelling (sampled in the quick tier), seeded random 6-18 nodes, "
             "std-lib bytecode CFGs; one TLC state per (behaviour, stage); non-trivial = restructuring created at least one region "
             "and one further block",
        level_text="",
    )
