"""C04 - the region hierarchy is self-consistent.
Props!WellFormed on every stage state (StageCheck.tla), and - so that the first operation that breaks consistency is
named - the consistency clauses that must hold between primitives on the state after EVERY primitive of every recorded
behaviour (TraceRestructure.tla)."""
from __future__ import annotations

import json

from .. import rb, tlc
from ..common import Report, parse_args
from . import stagefam, tracefam

PROP = "C04"


def main(argv):
    args = parse_args(PROP, argv)
    rep = Report(PROP, args.tier, args.seed, "model_checking")
    if args.replay:
        with open(args.replay) as f:
            inputs = [json.load(f)["input"]["id"]]
        rep.replay_only = args.replay
        tinputs = inputs
    else:
        inputs = rb.domain_inputs(args.tier, args.seed, "XRBSNKLV")
        tinputs = tracefam.trace_inputs(args.tier, args.seed)
    d = rb.workdir(PROP)
    try:
        res = rb.record_domain(inputs, d, jobs=args.jobs, shards=args.jobs, stages=True)
        verdicts = stagefam.evaluate(res, "C04", args.jobs)
        stagefam.account(rep, res, verdicts, lambda s: s["nblocks"] > s["n"] + 1,
                         "closed CFGs: all with <=4 nodes, 5-node ones modulo relabelling (sampled in the quick tier), seeded random 6-18 nodes, std-lib bytecode "
                         "CFGs, generated source programs; one TLC state per (behaviour, stage) plus one per primitive event of a second, smaller set of "
                         "behaviours; non-trivial = restructuring created at least one region and one further block", inputs)
        try:
            tr = tracefam.run_traces(tinputs, "C04", d, args.jobs)
        except tlc.MachineryError as e:
            # a second engine that cannot cope with what the code did must not mask a verdict the first engine already reached
            # (with tens of thousands of violating states TLC has run out of memory collecting counterexamples)
            if not rep.violations:
                raise
            print("NOTE: per-primitive trace validation could not be completed (%s); the stage verdicts above stand" % str(e)[:120])
            tr = {"viol": [], "states": 0, "generated": 0, "events": 0, "behaviours": 0}
        for v in tr["viol"]:
            for clause in v["bad"]:
                if clause.startswith("C04/"):
                    rep.violation("after-primitive/" + clause[4:], {"id": v["id"], "event": v["event"]}, detail={"failed": v["bad"]})
        rep.coverage["states"] += tr["states"]
        rep.coverage["transitions"] += tr["generated"]
        rep.coverage["primitive_events_checked"] = tr["events"]
        rep.coverage["traces_validated_against_impl"] += tr["behaviours"]
        if not args.replay:
            from . import designfam

            designfam.attach(rep, PROP, args.tier, d, args.jobs)
            # the hierarchy must stay self-consistent after an EDIT of a restructured graph as well (region predecessors whose exiting
            # block is itself a region, appended arcs): one-step edit histories enumerated by TLC, replayed on real objects
            from .c16 import edited_generic

            edited_generic(rep, args, d, "wf", "BCR", "2", "1")
    finally:
        tlc.cleanup(d)
    rep.assumptions += ["TLC and the CommunityModules Json reader", "harness projection (harness/project.py) faithfully flattens the live objects",
                        "front-end graphs are used only when they pass the closed-CFG domain test (DESIGN section 9)"]
    return rep.finish()
