"""C05 - original blocks are conserved (Props!Conserved on every stage state)."""
from .stagefam import run_family


def main(argv):
    return run_family(
        "C05", "C05", argv, "XRBSNKL",
        nontrivial=lambda s: s["nblocks"] > s["n"] + 1,
        rule="closed CFGs (plain blocks: X, R; bytecode payloads: B); Conserved(orig, H) evaluated by TLC on every stage state; "
             "non-trivial = restructuring added at least two blocks/regions around the originals",
        level_text="",
    )
