"""C06 - control variables assigned before use and in range.
Static: Props!TablesAgree on every stage state.  Dynamic: the valuation is part of Walk.tla's product state, so
Assigned / InRange / names-a-successor / LatchFresh are decided over all reachable valuations."""
from __future__ import annotations

import json

from .. import rb, tlc
from ..common import Report, parse_args
from .stagefam import STAGE_ORDER, evaluate
from .walkfam import explore

PROP = "C06"


def main(argv):
    args = parse_args(PROP, argv)
    rep = Report(PROP, args.tier, args.seed, "model_checking")
    if args.replay:
        with open(args.replay) as f:
            inputs = [json.load(f)["input"]["id"]]
        rep.replay_only = args.replay
    else:
        inputs = rb.domain_inputs(args.tier, args.seed, "XRBSKL")
    d = rb.workdir(PROP)
    if args.replay and inputs[0].get("dom") == "E":
        try:
            from .c16 import edited_generic

            edited_generic(rep, args, d, "tables", "BCT", "1", "2")
        finally:
            tlc.cleanup(d)
        return rep.finish()
    try:
        res = rb.record_domain(inputs, d, jobs=args.jobs, shards=args.jobs, stages=True, heavy=70,
                               reload=bool(args.replay and inputs and inputs[0].get("reload")))
        stat = evaluate(res, "C06", args.jobs)
        out = explore(res, args.jobs)
        if not args.replay:
            from . import designfam

            designfam.attach_walk(rep, PROP, args.tier, d, args.jobs)
            # histories in which the graph is written out and read back between the stages (the generator of the reloaded graph must not
            # hand out a control variable that is already in use): same tables clause, same product exploration
            import os

            rin = rb.domain_inputs(args.tier, args.seed + 2, "XR", scale=0.25 if args.tier == "quick" else 0.5)
            # ... and histories in which the graph is HELD while a copy made through the dictionary form is restructured further (the
            # copy's renamings must not reach the tables of the graph it was copied from)
            for mode, key, flag, hist in ((True, "reload_histories", "reload", "to_dict/from_dict between stages"),
                                          ("fork", "held_while_copy_is_restructured", "fork", "a to_dict/from_dict copy is restructured while this graph is held")):
                res2 = rb.record_domain(rin, os.path.join(d, flag), jobs=args.jobs, shards=args.jobs, stages=True, reload=mode, heavy=70)
                stat2 = evaluate(res2, "C06", args.jobs)
                out2 = explore(res2, args.jobs)
                for v in stat2["viol"]:
                    for clause in v["bad"]:
                        rep.violation(clause, {"id": dict(v["id"], **{flag: True}), "stage": STAGE_ORDER[v["sid"] - 1]}, detail={"failed": v["bad"], "history": hist})
                for v in out2["viol"]:
                    if v["bad"].startswith("BAD:C06-"):
                        rep.violation(v["bad"][8:], {"id": dict(v["id"], **{flag: True}), "stage": STAGE_ORDER[v["sid"] - 1], "mode": v["mode"]},
                                      detail={"decision_path_blocks": v["path"], "env": v["env"], "history": hist})
                rep.coverage[key] = {"behaviours": sum(r["ncases"] for r in res2), "product_states": out2["states"]}
                rep.coverage["states"] = rep.coverage.get("states", 0) + out2["states"] + stat2["states"]
        if not args.replay:
            # "... at every stage and after every renaming": the tables clause on graphs EDITED after restructuring - one-step edit
            # histories enumerated by TLC (insert_block / control blocks / join_tails_and_exits, up to two successors merged into one new
            # block), replayed on real objects
            from .c16 import edited_generic

            edited_generic(rep, args, d, "tables", "BCT", "1", "2")
        from . import tracefam

        try:
            tr = tracefam.run_traces(tracefam.trace_inputs(args.tier, args.seed) if not args.replay else inputs, "C06", d, args.jobs)
        except tlc.MachineryError as e:
            if not (rep.violations or stat["viol"] or out["viol"]):
                raise
            print("NOTE: per-primitive trace validation could not be completed (%s); the verdicts already reached stand" % str(e)[:120])
            tr = {"viol": [], "states": 0, "generated": 0}
        for v in tr["viol"]:
            for clause in v["bad"]:
                if clause.startswith("C06/"):
                    rep.violation("after-primitive/" + clause[4:], {"id": v["id"], "event": v["event"]}, detail={"failed": v["bad"]})
        stat["states"] += tr["states"]
        stat["generated"] += tr["generated"]
        design = None
        if not args.replay:
            from . import designfam

            design = designfam
            designfam.attach(rep, PROP, args.tier, d, args.jobs)
    finally:
        tlc.cleanup(d)
    for v in stat["viol"]:
        for clause in v["bad"]:
            rep.violation(clause, {"id": v["id"], "stage": STAGE_ORDER[v["sid"] - 1]}, detail={"failed": v["bad"]})
    for v in out["viol"]:
        if v["bad"].startswith("BAD:C06-"):
            rep.violation(v["bad"][8:], {"id": v["id"], "stage": STAGE_ORDER[v["sid"] - 1], "mode": v["mode"]}, detail={"decision_path_blocks": v["path"], "env": v["env"]})
    summ = [s for r in res for s in r["summary"]]
    ok = [s for s in summ if s.get("build") == "ok"]
    nt = [s for s in ok if s["nbranching"] > 0]
    rep.coverage.update({
        "states": out["states"] + stat["states"] + rep.coverage.get("states", 0), "transitions": out["generated"] + stat["generated"] + rep.coverage.get("transitions", 0),
        "traces_validated_against_impl": len(ok), "evaluations": len(inputs),
        "distinct_nontrivial": len({json.dumps(s["id"], sort_keys=True) for s in nt}),
        "rule": "TablesAgree evaluated by TLC on every stage state; unset / out-of-range / stale-latch control variables searched by TLC over the "
                "whole product (all reachable valuations, both walk modes); non-trivial = at least one branching synthetic block in the result",
        "exhaustive": False,
        "samples": [s["id"] for s in nt[:3]],
    })
    if ok and not nt and not rep.violations:
        raise tlc.MachineryError("vacuous: no input produced a branching synthetic block")
    return rep.finish()
