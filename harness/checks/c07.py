"""C07 - Python source round trip is observationally equivalent or refused (PySem.tla vs the regenerated function)."""
from .srcsem import run


def main(argv):
    return run("C07", "regen", argv)
