"""C08 - the graph built from source means what the source means (PySem.tla vs block-wise interpretation of AST2SCFG's graph)."""
from .srcsem import run


def main(argv):
    return run("C08", "blocks", argv)
