"""C09 - the graph built from bytecode is exactly the bytecode's control flow (ByteCFG.tla).

E2: every eligible function of the std-lib corpus (and the synthetic streams below) is built by the real code under
every available supported interpreter; TLC judges (stream, blocks | exception) against Partition / EntryOnlyAtFirst /
LeaveOnlyAfterLast / SuccExact / Built, with instruction classes taken from the running interpreter's own metadata.
E1: TLC enumerates every well-formed abstract stream of <= MAXN instructions and checks the Impl transcription against
the contract.  E3: each of those streams is instantiated with every conditional / unconditional / returning opcode the
interpreter defines and fed to FlowInfo.from_bytecode; results are judged by TLC and compared with the transcription."""
from __future__ import annotations

import concurrent.futures as cf
import json
import os
import re
import shutil
import subprocess
import sys

from .. import rb, tlc
from ..common import Report, parse_args

PROP = "C09"
CFG = "INIT Init\nNEXT Next\nINVARIANT Holds\nCHECK_DEADLOCK FALSE\n"
REC = os.path.join(os.path.dirname(os.path.dirname(os.path.abspath(__file__))), "bytecfg_record.py")


def interpreters():
    out = [("3.12", sys.executable)]
    p311 = shutil.which("python3.11")
    if p311:
        env = dict(os.environ, PYTHONPATH=os.environ.get("VERIF_REPO", "/repo"))
        r = subprocess.run([p311, "-c", "import numba_scfg.core.datastructures.byte_flow"], env=env, capture_output=True)
        if r.returncode == 0:
            out.append(("3.11", p311))
    return out


def run_rec(py, args, env=None):
    e = dict(os.environ, PYTHONPATH=os.environ.get("VERIF_REPO", "/repo"), PYTHONHASHSEED="0")
    r = subprocess.run([py, REC] + args, env=e, capture_output=True, text=True, timeout=1800)
    if r.returncode != 0:
        raise tlc.MachineryError("recorder failed under %s: %s" % (py, r.stderr[-2000:]))
    return r.stdout


def instantiate(streams, optable, ver):
    """E3: one concrete stream per (abstract stream, opcode of each class used)."""
    out = []
    for k, s in enumerate(streams):
        classes = {i["cls"] for i in s}
        choices = []
        for cls in ("cond", "jump", "ret"):
            if cls in classes:
                choices.append([(cls, o) for o in optable[cls]])
        if not choices:
            choices = [[("seq", {"op": "NOP", "size": 2})]]
        # every opcode of every class appears at least once: walk the classes one at a time
        base = {cls: optable[cls][0] for cls in ("cond", "jump", "ret") if optable[cls]}
        variants = [dict(base)]
        for ch in choices:
            for cls, o in ch[1:]:
                v = dict(base)
                v[cls] = o
                variants.append(v)
        for v in variants:
            conc, ok = [], True
            for i in s:
                d = dict(i)
                if i["cls"] == "seq":
                    d["op"] = "NOP" if i["size"] == 2 else "BINARY_OP"
                else:
                    o = v[i["cls"]]
                    if i["cls"] == "jump":   # direction decides the opcode of an unconditional jump
                        name = "JUMP_BACKWARD" if i["tgt"] <= i["off"] else "JUMP_FORWARD"
                        o = {"op": name, "size": 2}
                    if i["cls"] == "cond" and o["size"] != i["size"]:
                        ok = False
                        break
                    if i["cls"] == "cond" and ver == "3.11" and ("FORWARD" in o["op"]) != (i["tgt"] > i["off"]) and ("FORWARD" in o["op"] or "BACKWARD" in o["op"]):
                        ok = False
                        break
                    d["op"] = o["op"]
                conc.append(d)
            if ok:
                out.append({"id": "synth-%d-%s" % (k, "/".join(sorted({c["op"] for c in conc}))), "stream": conc})
    return out


def trace_check(paths, jobs):
    results = tlc.run_shards("ByteCFG", CFG, [{"MODE": "trace", "MAXN": "0", "CASES": p} for p in paths], jobs=jobs, workers=1, timeout=3000, heap="3g")
    tlc.require_ok(results, "ByteCFG trace")
    return results


def main(argv):
    args = parse_args(PROP, argv)
    rep = Report(PROP, args.tier, args.seed, "model_checking")
    quick = args.tier == "quick"
    d = rb.workdir(PROP)
    states = gen = nfun = nsyn = ndrift = 0
    samples = []
    nontrivial = 0
    try:
        interps = interpreters()
        # ---- E1: all well-formed abstract streams
        dump = os.path.join(d, "mc.dump")
        maxn = 4 if quick else 5
        r = tlc.run("ByteCFG", CFG, {"MODE": "mc", "MAXN": str(maxn), "CASES": ""}, workers=1, timeout=6000, heap="6g", extra=["-dump", dump, "-maxSetSize", "4000000"], tag="bytecfg-mc")
        if r.error:
            raise tlc.MachineryError("ByteCFG MC: " + r.error[:2000])
        states += r.distinct
        gen += r.generated
        for v in r.violations:
            st = tlc.parse_state(v["states"][0])
            rep.violation("design/" + ",".join(sorted(st["bad"])), {"abstract_stream": st["stream"]}, detail={"blocks": st["blocks"]})
        with open(dump) as f:
            txt = f.read()
        os.remove(dump)
        abstract = []
        for stxt in re.split(r"(?m)^State \d+:\n", txt)[1:]:
            st = tlc.parse_state(stxt)
            abstract.append([{"off": i["off"], "size": i["size"], "cls": i["cls"], "tgt": i["tgt"]} for i in st["stream"]])
        samples.append({"run": "E1 ByteCFG.tla mc", "maxn": maxn, "abstract_streams": len(abstract)})
        # ---- per interpreter: corpus (E2) and instantiated streams (E3)
        for ver, py in interps:
            optable = json.loads(run_rec(py, ["optable"]))
            stride = 16
            with cf.ThreadPoolExecutor(max_workers=args.jobs) as ex:
                paths = [os.path.join(d, "corpus-%s-%02d.json" % (ver, k)) for k in range(stride)]
                futs = [ex.submit(run_rec, py, ["corpus", paths[k], str(stride), str(k)]) for k in range(stride)]
                [f.result() for f in futs]
                synth = instantiate(abstract if not quick else abstract[:: max(1, len(abstract) // 4000)], optable, ver)
                spaths = []
                k = args.jobs
                for i in range(k):
                    pin = os.path.join(d, "synin-%s-%02d.json" % (ver, i))
                    pout = os.path.join(d, "syn-%s-%02d.json" % (ver, i))
                    with open(pin, "w") as f:
                        json.dump(synth[i::k], f)
                    spaths.append((pin, pout))
                futs = [ex.submit(run_rec, py, ["synth", a, b]) for a, b in spaths]
                [f.result() for f in futs]
            allpaths = paths + [b for _, b in spaths]
            results = trace_check(allpaths, args.jobs)
            for p, tr in zip(allpaths, results):
                with open(p) as f:
                    recs = json.load(f)
                if tr.distinct != len(recs):
                    raise tlc.MachineryError("ByteCFG trace evaluated %d of %d cases" % (tr.distinct, len(recs)))
                states += tr.distinct
                gen += tr.generated
                issyn = "syn-" in os.path.basename(p)
                if issyn:
                    nsyn += len(recs)
                else:
                    nfun += len(recs)
                    nontrivial += sum(1 for x in recs if len(x["blocks"]) > 2)
                    if recs and len(samples) < 6:
                        samples.append({"run": "E2 corpus " + ver, "function": recs[0]["id"], "instructions": len(recs[0]["stream"]), "blocks": len(recs[0]["blocks"])})
                for v in tr.violations:
                    st = tlc.parse_state(v["states"][0])
                    rec = recs[st["tid"] - 1]
                    ops = sorted({i["op"] for i in rec["stream"] if i["cls"] != "seq"})
                    for clause in st["bad"]:
                        rep.violation(clause, {"id": rec["id"], "python": ver}, detail={"exc": rec["exc"], "jump_and_return_opcodes": ops},
                                      signature={"clause": clause, "python": ver, "exc": rec["exc"]})
            # drift accounting (second pass only over the invariants' complement is not needed: drift is a state variable)
        samples.append({"run": "interpreters", "versions": [v for v, _ in interps]})
    finally:
        tlc.cleanup(d)
    rep.coverage.update({
        "states": states, "transitions": gen, "traces_validated_against_impl": nfun + nsyn, "evaluations": nfun + nsyn,
        "functions": nfun, "synthetic_streams": nsyn, "distinct_nontrivial": nontrivial,
        "rule": "every eligible function (no exception table, raise or generator flag) of ~100 std-lib modules under each available supported interpreter, "
                "plus every well-formed abstract stream of <=MAXN instructions (TLC-enumerated) instantiated with every conditional/unconditional/returning "
                "opcode the interpreter defines; non-trivial = a function whose graph has more than two blocks",
        "exhaustive": False, "samples": samples,
    })
    rep.assumptions += ["instruction classes come from dis/opcode metadata of the running interpreter (hasjrel/hasjabs, RETURN_* names, the fixed set of unconditional jump names)",
                        "SEND / JUMP_BACKWARD_NO_INTERRUPT / RETURN_GENERATOR are generator-only and outside the property's domain"]
    return rep.finish()
