"""C10 - code generation emits every block exactly once, validly and hygienically (Census.tla on the generated tree of
every program accepted by the source pipeline)."""
from __future__ import annotations

import json
import multiprocessing as mp
import os

from .. import pygen, rb, tlc
from ..common import Report, parse_args

PROP = "C10"
CFG = "INIT Init\nNEXT Next\nINVARIANT Holds\nCHECK_DEADLOCK FALSE\n"


def _work(task):
    srcs, path = task
    from .. import astgraph, srcpipe

    recs = []
    for src, feats in srcs:
        if feats == ["graph"]:
            # second domain: a closed CFG decorated with AST payloads (src is the successor table)
            r = astgraph.pipeline_graph(src)
            recs.append({"outcome": r["outcome"], "stage": r["stage"], "exc": r["exc"], "census": r["census"] or {}, "src": json.dumps(src), "feats": feats,
                         "flat": r["flat"], "skeleton": r["skeleton"], "skexc": r["skexc"], "H": r["H"], "root": r["root"]})
            continue
        r = srcpipe.pipeline(src)
        recs.append({"outcome": r["outcome"], "stage": r["stage"], "exc": r["exc"], "census": r["census"] or {}, "src": src, "feats": feats, "second": r.get("second"),
                     "flat": r.get("flat", {}), "skeleton": r.get("skeleton", []), "skexc": r.get("skeleton_exc", ""), "H": r.get("H", {}), "root": r.get("root", "")})
    with open(path, "w") as f:
        json.dump([{k: r[k] for k in ("outcome", "stage", "census", "second") if r.get(k) is not None} for r in recs], f, separators=(",", ":"))
    sk = [{"flat": r["flat"], "code": r["skeleton"]} for r in recs if r["outcome"] == "ok" and not r["skexc"]]
    with open(path.replace("census-", "skeleton-"), "w") as f:
        json.dump(sk, f, separators=(",", ":"))
    # cases for the transcription of the code generator (CodegenImpl.tla): recorded hierarchy + real output (or refusal)
    im = [{"flat": r["flat"], "code": r["skeleton"], "H": r["H"], "root": r["root"], "refused": r["outcome"] == "refused"}
          for r in recs if r["H"] and len(r["H"]) <= 70 and not r["skexc"] and (r["outcome"] == "ok" or (r["outcome"] == "refused" and r["stage"] == "scfg2ast"))]
    # (hierarchies with more than 70 names are left to the real-output product: the transcription's cost grows cubically with their size)
    with open(path.replace("census-", "impl-"), "w") as f:
        json.dump(im, f, separators=(",", ":"))
    return [{k: r[k] for k in ("outcome", "stage", "exc", "src", "feats")} | {"nasg": len((r["census"] or {}).get("exp_asg", [])),
                                                                            "outside": ",".join((r["census"] or {}).get("outside", [])), "skexc": r["skexc"]} for r in recs]


def main(argv):
    args = parse_args(PROP, argv)
    rep = Report(PROP, args.tier, args.seed, "model_checking")
    quick = args.tier == "quick"
    if args.replay:
        with open(args.replay) as f:
            rp = json.load(f)["input"]
        progs = [(rp["src"], rp.get("feats", []))]
        rep.replay_only = args.replay
    else:
        ps = pygen.generate(args.seed, 1500 if quick else 12000, max_depth=3 if quick else 4, max_stmts=3 if quick else 4)
        progs = [(p.source(), p.feats) for p in ps]
        # second domain: restructured graphs of AST blocks (closed CFGs decorated with AST payloads)
        for inp in rb.domain_inputs(args.tier, args.seed, "XRK", scale=0.6 if quick else 0.5):
            progs.append((inp["g"], ["graph"]))
    d = rb.workdir(PROP)
    try:
        k = min(args.jobs, len(progs))
        tasks = [(progs[i::k], os.path.join(d, "census-%02d.json" % i)) for i in range(k)]
        ctx = mp.get_context("fork")
        with ctx.Pool(k) as pool:
            metas = pool.map(_work, tasks)
        results = tlc.run_shards("Census", CFG, [{"CASES": t[1]} for t in tasks], jobs=args.jobs, workers=1, timeout=3000)
        tlc.require_ok(results, "Census")
        states = gen = 0
        for meta, tr in zip(metas, results):
            states += tr.distinct
            gen += tr.generated
            if tr.distinct != len(meta):
                raise tlc.MachineryError("Census evaluated %d of %d cases" % (tr.distinct, len(meta)))
            for v in tr.violations:
                st = tlc.parse_state(v["states"][0])
                m = meta[st["tid"] - 1]
                for clause in st["bad"]:
                    if clause.startswith("Again/") and clause[6:] in st["bad"]:
                        continue        # the second regeneration repeats what the first one already shows
                    rep.violation(clause, {"src": m["src"], "feats": m["feats"]}, detail={"exc": m["exc"], "stage": m["stage"]},
                                  signature={"clause": clause.replace("Again/", "").split("/")[0], "exc": m["exc"], "outside": m["outside"]})
        # all decision paths, skeleton level (Skeleton.tla): product of the flat graph with the generated code
        skres = tlc.run_shards("Skeleton", "INIT Init\nNEXT Next\nINVARIANT SamePaths\nALIAS Small\nCHECK_DEADLOCK FALSE\n",
                               [{"CASES": t[1].replace("census-", "skeleton-"), "MODE": "real"} for t in tasks], jobs=args.jobs, workers=1, timeout=3000)
        tlc.require_ok(skres, "Skeleton")
        # the transcription of the code generator: conformance with the real output and all paths of ITS output (design level)
        imres = tlc.run_shards("Skeleton", "INIT Init\nNEXT Next\nINVARIANT SamePaths\nINVARIANT NoDrift\nALIAS Small\nCHECK_DEADLOCK FALSE\n",
                               [{"CASES": t[1].replace("census-", "impl-"), "MODE": "impl"} for t in tasks], jobs=args.jobs, workers=1, timeout=3000, heap="3g")
        cg = {"states": 0, "drift": 0, "design_failures": 0}
        if any(tr.error for tr in imres):
            # the transcription could not be evaluated on what the code produced: drift, never a reason to hide a verdict
            cg["drift"] = -1
            imres = []
        for tr in imres:
            cg["states"] += tr.distinct
            states += tr.distinct
            gen += tr.generated
            for v in tr.violations:
                if v["inv"] == "NoDrift":
                    cg["drift"] += 1
                else:
                    cg["design_failures"] += 1
        if cg["drift"]:
            rep.add_drift({"codegen_transcription_differs_from_real_output_on": cg["drift"]})
        if cg["design_failures"]:
            print("DESIGN: property=C10 the transcription of the code generator (CodegenImpl.tla) loses a path on %d cases" % cg["design_failures"])
        rep.coverage["codegen_model"] = dict(cg, module="CodegenImpl.tla + Skeleton.tla (MODE=impl)")
        sk_states = 0
        for meta, tr in zip(metas, skres):
            sk_states += tr.distinct
            states += tr.distinct
            gen += tr.generated
            okm = [m for m in meta if m["outcome"] == "ok" and not m["skexc"]]
            for m in meta:
                if m["outcome"] == "ok" and m["skexc"]:
                    # generated code of a shape the skeleton grammar does not know: no all-paths product for this program (the census
                    # below is by node identity and does not depend on it); reported, never a verdict and never a reason to stop
                    rep.add_drift({"generated_code_shape_unknown_to_Skeleton": m["skexc"], "src": m["src"]})
            for v in tr.violations:
                st = tlc.parse_state(v["states"][-1])
                m = okm[st["tid"] - 1]
                rep.violation("AllPaths/" + st["bad"], {"src": m["src"], "feats": m["feats"]}, detail={"decision_path_length": len(v["states"])},
                              signature={"clause": "AllPaths", "exc": "", "outside": m["outside"]})
    finally:
        tlc.cleanup(d)
    flat = [m for ms in metas for m in ms]
    acc = [m for m in flat if m["outcome"] == "ok"]
    byfeat = {}
    for m in flat:
        for f in m["feats"]:
            e = byfeat.setdefault(f, {"ok": 0, "refused": 0, "internal": 0})
            e[m["outcome"]] += 1
    rep.coverage.update({
        "states": states, "transitions": gen, "traces_validated_against_impl": len(acc), "evaluations": len(flat),
        "distinct_nontrivial": sum(1 for m in acc if m["nasg"] > 0),
        "rule": "seeded generated programs of the supported subset (feature switches of DESIGN 6.1) through AST2SCFG -> restructure -> SCFG2AST -> unparse -> compile, and, "
                "independently, closed CFGs (<=4 nodes all, 5 nodes sampled, seeded random 6-12) decorated with AST payloads -> restructure -> SCFG2AST; "
                "the census of the output tree is judged by TLC; non-trivial = an accepted program whose restructured graph holds synthetic assignments",
        "all_paths_product_states": sk_states, "accepted": len(acc), "refused": sum(1 for m in flat if m["outcome"] == "refused"), "internal_errors": sum(1 for m in flat if m["outcome"] == "internal"),
        "outcomes_by_feature": byfeat, "exhaustive": False,
        "samples": [m["src"] for m in acc[:2]],
    })
    rep.coverage["decorated_graphs"] = {"tried": sum(1 for m in flat if m["feats"] == ["graph"]), "accepted": sum(1 for m in acc if m["feats"] == ["graph"])}
    if flat and not args.replay and len(acc) < len(flat) // 4 and not rep.violations:
        raise tlc.MachineryError("vacuous: fewer than a quarter of the generated programs were accepted")
    return rep.finish()
