"""C11 - unsupported source constructs are refused, never mistranslated (Unsupported.tla on the full product
statement kind x structural position, built from the running interpreter's ast module)."""
from __future__ import annotations

import ast
import json
import os
import textwrap

from .. import rb, tlc
from ..common import Report, parse_args
from ..record import exc_sig

PROP = "C11"
CFG = "INIT Init\nNEXT Next\nINVARIANT Holds\nCHECK_DEADLOCK FALSE\n"

SUPPORTED = {"FunctionDef", "Assign", "AugAssign", "Expr", "Return", "Pass", "If", "While", "For", "Break", "Continue"}
SNIPPET = {
    "FunctionDef": "def g(u):\n    return u",
    "AsyncFunctionDef": "async def g(u):\n    return u",
    "ClassDef": "class K:\n    pass",
    "Delete": "del x",
    "TypeAlias": "type X = int",
    "AnnAssign": "x: int = 1",
    "AsyncFor": "async for q in a:\n    pass",
    "AsyncWith": "async with a:\n    pass",
    "With": "with a:\n    x = 1",
    "Match": "match a:\n    case 1:\n        x = 1\n    case _:\n        x = 2",
    "Raise": "raise ValueError(a)",
    "Try": "try:\n    x = 1\nexcept Exception:\n    x = 2",
    "TryStar": "try:\n    x = 1\nexcept* Exception:\n    x = 2",
    "Assert": "assert a",
    "Import": "import os",
    "ImportFrom": "from os import path",
    "Global": "global gg",
    "Nonlocal": "nonlocal nn",
}
POSITIONS = {
    "top": "def f(a, b):\n    x = 0\n{S1}\n    return x\n",
    "first": "def f(a, b):\n{S1}\n    x = 0\n    return x\n",
    "if_body": "def f(a, b):\n    x = 0\n    if a:\n{S2}\n    else:\n        x = 3\n    return x\n",
    "if_else": "def f(a, b):\n    x = 0\n    if a:\n        x = 3\n    else:\n{S2}\n    return x\n",
    "while_body": "def f(a, b):\n    x = 0\n    while x < a:\n        x += 1\n{S2}\n    return x\n",
    "while_else": "def f(a, b):\n    x = 0\n    while x < a:\n        x += 1\n    else:\n{S2}\n    return x\n",
    "for_body": "def f(a, b):\n    x = 0\n    for i in range(a):\n{S2}\n        x += i\n    return x\n",
    "after_loop": "def f(a, b):\n    x = 0\n    for i in range(a):\n        x += i\n{S1}\n    return x\n",
    "after_return": "def f(a, b):\n    x = 0\n    if a:\n        return x\n{S2}\n    return b\n",
    "after_break": "def f(a, b):\n    x = 0\n    while x < a:\n        x += 1\n        break\n{S2}\n    return x\n",
    "while_true_else": "def f(a, b):\n    x = 0\n    while True:\n        x += 1\n        if x > a:\n            break\n    else:\n{S2}\n    return x\n",
    "dead_nested": "def f(a, b):\n    x = 0\n    return x\n    if a:\n        x = 1\n    else:\n{S2}\n",
    "nested_deep": "def f(a, b):\n    x = 0\n    while x < a:\n        if b:\n            for i in range(a):\n{S4}\n        x += 1\n    return x\n",
}
# ---- composed positions: every nesting of up to two contexts, the statement first / last in the innermost suite
CONTEXTS = {
    "if": "if a:\n{B}\nelse:\n    x = 3",
    "else": "if a:\n    x = 3\nelse:\n{B}",
    "elif": "if a:\n    x = 3\nelif b:\n{B}\nelse:\n    x = 4",
    "while": "while x < a:\n    x += 1\n{B}",
    "whileelse": "while x < a:\n    x += 1\nelse:\n{B}",
    "for": "for i in range(a):\n{B}\n    x += i",
    "forelse": "for i in range(a):\n    x += i\nelse:\n{B}",
}


def composed_positions():
    out = {}
    names = list(CONTEXTS)
    for c1 in names:
        for c2 in [None] + names:
            for where in ("only", "before", "after"):
                inner = {"only": "{S}", "before": "{S}\nx = 7", "after": "x = 7\n{S}"}[where]
                body = CONTEXTS[c2].replace("{B}", textwrap.indent(inner, "    ")) if c2 else inner
                whole = CONTEXTS[c1].replace("{B}", textwrap.indent(body, "    "))
                out["%s/%s/%s" % (c1, c2 or "-", where)] = "def f(a, b):\n    x = 0\n" + textwrap.indent(whole, "    ") + "\n    return x\n"
    return out


CONTROL = [
    "def f(a, b):\n    x = 0\n    return x\n",
    "def f(a, b):\n    x = 0\n    if a:\n        x = 1\n    else:\n        x = 2\n    while x < b:\n        x += 1\n    else:\n        x = 5\n    for i in range(a):\n        x += i\n    return x\n",
]
NON_FUNCTION = {
    "FunctionDef+FunctionDef-input": "def f(a):\n    return a\ndef g(a):\n    return a\n",
    "FunctionDef+Assign-input": "def f(a):\n    return a\nf = 3\n",
    "FunctionDef+ClassDef-input": "def f(a):\n    return a\nclass K:\n    pass\n",
    "Import+FunctionDef-input": "import os\ndef f(a):\n    return a\n",
    "empty-input": "\n",
    "ClassDef-input": "class K:\n    def m(self):\n        return 1\n",
    "Assign-input": "x = 1\n",
    "Expr-input": "print(1)\n",
    "AsyncFunctionDef-input": "async def f(a):\n    return a\n",
    "If-input": "if True:\n    x = 1\n",
    "Import-input": "import os\n",
}


def classify(src: str):
    from numba_scfg.core.datastructures.ast_transforms import AST2SCFG

    try:
        AST2SCFG(src)
        return "graph", ""
    except NotImplementedError as e:
        return "refused", exc_sig(e)
    except Exception as e:
        return "internal", exc_sig(e)


def main(argv):
    args = parse_args(PROP, argv)
    rep = Report(PROP, args.tier, args.seed, "model_checking")
    kinds = sorted(n for n, c in vars(ast).items() if isinstance(c, type) and issubclass(c, ast.stmt) and c is not ast.stmt and n not in SUPPORTED) + ["FunctionDef"]
    missing = [k for k in kinds if k not in SNIPPET]
    if missing:
        raise tlc.MachineryError("no snippet for statement kinds %s of this interpreter" % missing)
    cases = []
    composed = composed_positions()
    allpos = dict(POSITIONS)
    allpos.update(composed)
    for k in kinds:
        for pos, tmpl in allpos.items():
            if pos in composed:
                # substitute the snippet at the indentation of the placeholder
                lines = []
                for ln in tmpl.split("\n"):
                    if "{S}" in ln:
                        ind = ln[: len(ln) - len(ln.lstrip())]
                        lines += [ind + x for x in SNIPPET[k].split("\n")]
                    else:
                        lines.append(ln)
                src = "\n".join(lines)
            else:
                src = tmpl.format(S1=textwrap.indent(SNIPPET[k], "    "), S2=textwrap.indent(SNIPPET[k], "        "), S4=textwrap.indent(SNIPPET[k], "                "))
            try:
                ast.parse(src)
            except SyntaxError as e:
                raise tlc.MachineryError("template does not parse: %s / %s: %s" % (k, pos, e))
            out, exc = classify(src)
            cases.append({"kind": k, "pos": pos, "unsupported": True, "outcome": out, "exc": exc, "src": src})
    for i, src in enumerate(CONTROL):
        out, exc = classify(src)
        cases.append({"kind": "control-%d" % i, "pos": "none", "unsupported": False, "outcome": out, "exc": exc, "src": src})
    for k, src in NON_FUNCTION.items():
        out, exc = classify(src)
        cases.append({"kind": k, "pos": "input", "unsupported": True, "outcome": out, "exc": exc, "src": src})
    if args.replay:
        rep.replay_only = args.replay
    d = rb.workdir(PROP)
    try:
        p = os.path.join(d, "cases.json")
        with open(p, "w") as f:
            json.dump({"kinds": kinds, "positions": list(allpos), "cases": [{k: c[k] for k in ("kind", "pos", "unsupported", "outcome", "exc")} for c in cases]}, f)
        r = tlc.run("Unsupported", CFG, {"CASES": p}, workers=1, timeout=600)
        if r.error:
            raise tlc.MachineryError("Unsupported: " + r.error[:2000])
        if r.distinct != len(cases) + 1:
            raise tlc.MachineryError("Unsupported evaluated %d of %d cases" % (r.distinct, len(cases) + 1))
        for v in r.violations:
            st = tlc.parse_state(v["states"][0])
            for clause in st["bad"]:
                if clause.startswith("MACHINERY"):
                    raise tlc.MachineryError(clause)
                c = cases[st["tid"] - 1]
                rep.violation(clause, {"kind": c["kind"], "position": c["pos"], "src": c["src"]}, detail={"outcome": c["outcome"], "exc": c["exc"]},
                              signature={"kind": c["kind"], "clause": clause})
    finally:
        tlc.cleanup(d)
    rep.coverage.update({
        "states": r.distinct, "transitions": r.generated, "traces_validated_against_impl": len(cases), "evaluations": len(cases),
        "distinct_nontrivial": len(kinds) * len(allpos),
        "rule": "every ast.stmt subclass of the running interpreter outside the supported set (%d kinds, nested FunctionDef included) at every structural position "
                "(%d templates), two supported control programs and %d non-function inputs; TLC certifies that the recorded cases are exactly kinds x positions" % (len(kinds), len(allpos), len(NON_FUNCTION)),
        "exhaustive": True, "exhaustive_scope": "statement kinds x position templates (a small finite model)",
        "samples": [{"kind": c["kind"], "pos": c["pos"], "outcome": c["outcome"]} for c in cases[:3]],
    })
    return rep.finish()
