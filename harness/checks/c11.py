"""C11 - unsupported source constructs are refused, never mistranslated (Unsupported.tla on the full product
statement kind x structural position, built from the running interpreter's ast module)."""
from __future__ import annotations

import ast
import json
import os
import textwrap

from .. import rb, tlc
from ..common import Report, parse_args
from ..record import exc_sig

PROP = "C11"
CFG = "INIT Init\nNEXT Next\nINVARIANT Holds\nCHECK_DEADLOCK FALSE\n"

SUPPORTED = {"FunctionDef", "Assign", "AugAssign", "Expr", "Return", "Pass", "If", "While", "For", "Break", "Continue"}
SNIPPET = {
    "FunctionDef": "def g(u):\n    return u",
    "AsyncFunctionDef": "async def g(u):\n    return u",
    "ClassDef": "class K:\n    pass",
    "Delete": "del x",
    "TypeAlias": "type X = int",
    "AnnAssign": "x: int = 1",
    "AsyncFor": "async for q in a:\n    pass",
    "AsyncWith": "async with a:\n    pass",
    "With": "with a:\n    x = 1",
    "Match": "match a:\n    case 1:\n        x = 1\n    case _:\n        x = 2",
    "Raise": "raise ValueError(a)",
    "Try": "try:\n    x = 1\nexcept Exception:\n    x = 2",
    "TryStar": "try:\n    x = 1\nexcept* Exception:\n    x = 2",
    "Assert": "assert a",
    "Import": "import os",
    "ImportFrom": "from os import path",
    "Global": "global gg",
    "Nonlocal": "nonlocal nn",
}
POSITIONS = {
    "top": "def f(a, b):\n    x = 0\n{S1}\n    return x\n",
    "first": "def f(a, b):\n{S1}\n    x = 0\n    return x\n",
    "if_body": "def f(a, b):\n    x = 0\n    if a:\n{S2}\n    else:\n        x = 3\n    return x\n",
    "if_else": "def f(a, b):\n    x = 0\n    if a:\n        x = 3\n    else:\n{S2}\n    return x\n",
    "while_body": "def f(a, b):\n    x = 0\n    while x < a:\n        x += 1\n{S2}\n    return x\n",
    "while_else": "def f(a, b):\n    x = 0\n    while x < a:\n        x += 1\n    else:\n{S2}\n    return x\n",
    "for_body": "def f(a, b):\n    x = 0\n    for i in range(a):\n{S2}\n        x += i\n    return x\n",
    "after_loop": "def f(a, b):\n    x = 0\n    for i in range(a):\n        x += i\n{S1}\n    return x\n",
    "after_return": "def f(a, b):\n    x = 0\n    if a:\n        return x\n{S2}\n    return b\n",
    "after_break": "def f(a, b):\n    x = 0\n    while x < a:\n        x += 1\n        break\n{S2}\n    return x\n",
    "while_true_else": "def f(a, b):\n    x = 0\n    while True:\n        x += 1\n        if x > a:\n            break\n    else:\n{S2}\n    return x\n",
    "dead_nested": "def f(a, b):\n    x = 0\n    return x\n    if a:\n        x = 1\n    else:\n{S2}\n",
    "nested_deep": "def f(a, b):\n    x = 0\n    while x < a:\n        if b:\n            for i in range(a):\n{S4}\n        x += 1\n    return x\n",
}
# ---- the position grammar of Unsupported.tla, mirrored (TLC certifies that both sides build the same set) ----
CTX = ["if", "else", "elif", "while", "whileelse", "for", "forelse", "if0", "else1", "while0"]
TERMS = ["-", "ret", "brk", "cnt"]
BEFORE = ["none", "simple", "if", "loop"]
AFTER = ["none", "simple"]
CONTEXTS = {
    "if": "if a:\n{B}\nelse:\n    x = 3",
    "else": "if a:\n    x = 3\nelse:\n{B}",
    "elif": "if a:\n    x = 3\nelif b:\n{B}\nelse:\n    x = 4",
    "while": "while x < a:\n    x += 1\n{B}",
    "whileelse": "while x < a:\n    x += 1\nelse:\n{B}",
    "for": "for i in range(a):\n{B}\n    x += i",
    "forelse": "for i in range(a):\n    x += i\nelse:\n{B}",
    "if0": "if 0:\n{B}\nelse:\n    x = 3",
    "else1": "if 1:\n    x = 3\nelse:\n{B}",
    "while0": "while 0:\n    x += 1\n{B}",
}
T_SRC = {"-": [], "ret": ["return x"], "brk": ["break"], "cnt": ["continue"]}
P_SRC = {"none": [], "simple": ["x = 5"], "if": ["if b:\n    x = 6"], "loop": ["while x < b:\n    x += 2"]}
A_SRC = {"none": [], "simple": ["x = 7"]}


def steps_of(ctxs, slim=False):
    if slim:
        return [(c, t, p, "none") for c in ctxs for t in TERMS for p in ("none", "if")]
    return [(c, t, p, a) for c in ctxs for t in TERMS for p in BEFORE for a in AFTER]


def valid(path):
    for j, st in enumerate(path):
        if st[1] in ("brk", "cnt") and not any(q[0] in ("while", "for", "while0") for q in path[1: j + 1]):
            return False
    return True


def positions(depth, slim=False):
    level = [(s,) for s in steps_of(["fn"])]
    out = list(level)
    for _ in range(depth):
        level = [p + (s,) for p in level for s in steps_of(CTX, slim)]
        out += level
    return [p for p in out if valid(p)]


def path_name(path):
    return "/".join(":".join(st) for st in path)


def build(path, snippet):
    item = snippet
    for ctx, t, p, a in reversed(path):
        block = "\n".join(T_SRC[t] + P_SRC[p] + [item] + A_SRC[a])
        if ctx == "fn":
            return "def f(a, b):\n" + textwrap.indent(block, "    ") + "\n"
        item = CONTEXTS[ctx].replace("{B}", textwrap.indent(block, "    "))
    raise AssertionError("path without a function step")


CONTROL = [
    "def f(a, b):\n    x = 0\n    return x\n",
    "def f(a, b):\n    x = 0\n    if a:\n        x = 1\n    else:\n        x = 2\n    while x < b:\n        x += 1\n    else:\n        x = 5\n    for i in range(a):\n        x += i\n    return x\n",
]
NON_FUNCTION = {
    "FunctionDef+FunctionDef-input": "def f(a):\n    return a\ndef g(a):\n    return a\n",
    "FunctionDef+Assign-input": "def f(a):\n    return a\nf = 3\n",
    "FunctionDef+ClassDef-input": "def f(a):\n    return a\nclass K:\n    pass\n",
    "Import+FunctionDef-input": "import os\ndef f(a):\n    return a\n",
    "empty-input": "\n",
    "ClassDef-input": "class K:\n    def m(self):\n        return 1\n",
    "Assign-input": "x = 1\n",
    "Expr-input": "print(1)\n",
    "AsyncFunctionDef-input": "async def f(a):\n    return a\n",
    "If-input": "if True:\n    x = 1\n",
    "Import-input": "import os\n",
}


def _outcome(arg):
    from numba_scfg.core.datastructures.ast_transforms import AST2SCFG

    try:
        AST2SCFG(arg)
        return "graph", ""
    except NotImplementedError as e:
        return "refused", exc_sig(e)
    except Exception as e:
        return "internal", exc_sig(e)


def classify(src: str, form: str = "str"):
    if form == "str":
        return _outcome(src)
    if form == "ast":
        return _outcome(ast.parse(src).body)
    raise AssertionError(form)


def _compiles(src: str) -> bool:
    try:
        compile(src, "<c11>", "exec")
        return True
    except SyntaxError:
        return False


def _grid_work(task):
    """One shard: the given kinds x all positions, in every form. Returns the records."""
    kinds, depth, calldepth, workdir, tag = task
    import importlib.util

    pos = positions(depth, slim=depth >= 2)
    recs, srcs = [], {}
    modlines, fnames = [], {}
    for k in kinds:
        for path in pos:
            src = build(path, SNIPPET[k])
            try:
                ast.parse(src)
            except SyntaxError as e:
                raise tlc.MachineryError("grammar produced text that does not parse: %s / %s: %s" % (k, path_name(path), e))
            out = {"str": classify(src, "str")[0], "ast": classify(src, "ast")[0]}
            if len(path) - 1 <= calldepth:
                if _compiles(src):
                    fn = "f_%d" % len(fnames)
                    fnames[(k, path)] = fn
                    modlines.append(src.replace("def f(a, b):", "def %s(a, b):" % fn, 1))
                    out["callable"] = "?"
                else:
                    out["callable"] = "n/a"
            recs.append({"kind": k, "path": path_name(path), "out": out})
            srcs[(k, path_name(path))] = src
    if fnames:
        mp_ = os.path.join(workdir, "c11mod_%s.py" % tag)
        with open(mp_, "w") as f:
            f.write("\n\n".join(modlines))
        spec = importlib.util.spec_from_file_location("c11mod_%s" % tag, mp_)
        mod = importlib.util.module_from_spec(spec)
        spec.loader.exec_module(mod)
        byname = {(r["kind"], r["path"]): r for r in recs}
        for (k, path), fn in fnames.items():
            byname[(k, path_name(path))]["out"]["callable"] = _outcome(getattr(mod, fn))[0]
    return recs


CALLABLE_NON_FUNCTION = "class K:\n    def m(self):\n        return 1\n\n\ng = lambda a: a\n"


def main(argv):
    import multiprocessing as mp

    args = parse_args(PROP, argv)
    rep = Report(PROP, args.tier, args.seed, "model_checking")
    quick = args.tier == "quick"
    kinds = sorted(n for n, c in vars(ast).items() if isinstance(c, type) and issubclass(c, ast.stmt) and c is not ast.stmt and n not in SUPPORTED) + ["FunctionDef"]
    missing = [k for k in kinds if k not in SNIPPET]
    if missing:
        raise tlc.MachineryError("no snippet for statement kinds %s of this interpreter" % missing)
    if args.replay:
        rep.replay_only = args.replay
    d = rb.workdir(PROP)
    try:
        # ---- grid: kinds x Positions(depth) x forms; thorough adds depth 2 for three representative kinds ----
        shards = [([k], 1, 0 if quick else 1, d, k) for k in kinds]
        if not quick:
            shards += [([k], 2, 0, d, k + "-deep") for k in ("Raise", "With", "FunctionDef")]
        ctx = mp.get_context("fork")
        with ctx.Pool(args.jobs) as pool:
            grids = pool.map(_grid_work, shards)
        # ---- extras: named templates, control programs, non-function inputs ----
        extra = []
        for k in kinds:
            for pos, tmpl in POSITIONS.items():
                src = tmpl.format(S1=textwrap.indent(SNIPPET[k], "    "), S2=textwrap.indent(SNIPPET[k], "        "), S4=textwrap.indent(SNIPPET[k], "                "))
                try:
                    ast.parse(src)
                except SyntaxError as e:
                    raise tlc.MachineryError("template does not parse: %s / %s: %s" % (k, pos, e))
                for form in ("str", "ast"):
                    out, exc = classify(src, form)
                    extra.append({"kind": k, "pos": pos, "form": form, "unsupported": True, "outcome": out, "exc": exc, "src": src})
        controls_refused = 0
        for i, src in enumerate(CONTROL):
            out, exc = classify(src)
            controls_refused += out != "graph"
            extra.append({"kind": "control-%d" % i, "pos": "none", "form": "str", "unsupported": False, "outcome": out, "exc": exc, "src": src})
        for k, src in NON_FUNCTION.items():
            for form in ("str", "ast"):
                if form == "ast" and not ast.parse(src).body:
                    continue
                out, exc = classify(src, form)
                extra.append({"kind": k, "pos": "input", "form": form, "unsupported": True, "outcome": out, "exc": exc, "src": src})
        import importlib.util

        mp_ = os.path.join(d, "c11nonfn.py")
        with open(mp_, "w") as f:
            f.write(CALLABLE_NON_FUNCTION)
        spec = importlib.util.spec_from_file_location("c11nonfn", mp_)
        mod = importlib.util.module_from_spec(spec)
        import sys

        sys.modules["c11nonfn"] = mod          # inspect.getsource of a class looks its module up by name
        spec.loader.exec_module(mod)
        for k, obj in (("class-object-input", mod.K), ("lambda-input", mod.g)):
            out, exc = _outcome(obj)
            extra.append({"kind": k, "pos": "input", "form": "callable", "unsupported": True, "outcome": out, "exc": exc, "src": CALLABLE_NON_FUNCTION})
        # ---- TLC ----
        envs, metas = [], []
        for sh, recs in zip(shards, grids):
            p = os.path.join(d, "grid-%s.json" % sh[4])
            with open(p, "w") as f:
                json.dump({"kinds": sh[0], "depth": sh[1], "calldepth": sh[2], "slim": sh[1] >= 2, "cases": recs}, f, separators=(",", ":"))
            envs.append({"CASES": p})
            metas.append(("grid", sh, recs))
        p = os.path.join(d, "extra.json")
        with open(p, "w") as f:
            json.dump({"kinds": [], "depth": 0, "calldepth": 0,
                       "cases": [{k: c[k] for k in ("kind", "pos", "form", "unsupported", "outcome")} for c in extra]}, f)
        envs.append({"CASES": p})
        metas.append(("extra", None, extra))
        results = tlc.run_shards("Unsupported", CFG, envs, jobs=args.jobs, workers=1, timeout=1800, heap="2g")
        tlc.require_ok(results, "Unsupported")
        states = gen = ncases = 0
        for (what, sh, recs), r in zip(metas, results):
            states += r.distinct
            gen += r.generated
            ncases += len(recs)
            if r.distinct != len(recs) + 1:
                raise tlc.MachineryError("Unsupported evaluated %d of %d cases" % (r.distinct, len(recs) + 1))
            for v in r.violations:
                st = tlc.parse_state(v["states"][0])
                for clause in st["bad"]:
                    if clause.startswith("MACHINERY"):
                        raise tlc.MachineryError(clause + " (%s)" % (sh[4] if sh else "extra"))
                    c = recs[st["tid"] - 1]
                    if what == "grid":
                        path = next(pp for pp in positions(sh[1], slim=sh[1] >= 2) if path_name(pp) == c["path"])
                        src = build(path, SNIPPET[c["kind"]])
                        rep.violation(clause, {"kind": c["kind"], "position": c["path"], "src": src}, detail={"outcomes": c["out"]},
                                      signature={"kind": c["kind"], "clause": clause})
                    else:
                        rep.violation(clause, {"kind": c["kind"], "position": c["pos"], "src": c["src"]}, detail={"outcome": c["outcome"], "exc": c["exc"]},
                                      signature={"kind": c["kind"], "clause": clause})
    finally:
        tlc.cleanup(d)
    npos = len(positions(1))
    ncall = sum(1 for recs in grids for r in recs if r["out"].get("callable") not in (None, "n/a"))
    rep.coverage.update({
        "states": states, "transitions": gen, "traces_validated_against_impl": ncases, "evaluations": sum(len(r["out"]) for recs in grids for r in recs) + len(extra),
        "distinct_nontrivial": len(kinds) * npos,
        "function_object_form_cases": ncall,
        "control_programs_refused": controls_refused,
        "rule": "every ast.stmt subclass of the running interpreter outside the supported set (%d kinds, nested FunctionDef included) at every position of the "
                "TLA+ position grammar Positions(1) (%d positions: suite of the function or of one compound context - if / else / elif / while / while-else / "
                "for / for-else, and the suites a constant test makes dead: if 0 / else of if 1 / while 0 -, preceded by nothing / a simple statement / an if / a loop, optionally after a return / break / continue, followed by "
                "nothing / a statement), handed over as source text, as AST list and%s as function object; thorough adds Positions(2) for Raise, With, "
                "FunctionDef; plus %d named templates per kind, two supported control programs and %d non-function inputs (text, AST list, class object, "
                "lambda). TLC certifies per kind that the recorded cases are exactly Kinds x Positions x Forms" % (
                    len(kinds), npos, " (positions without compound context only)" if quick else "", len(POSITIONS), len(NON_FUNCTION) + 2),
        "exhaustive": True, "exhaustive_scope": "statement kinds x Positions(1) x input forms (Unsupported.tla)",
        "samples": [{"kind": r["kind"], "path": r["path"], "out": r["out"]} for recs in grids[:3] for r in recs[:1]],
    })
    return rep.finish()
