"""C12 - results are deterministic across processes and hash seeds (Determinism.tla: self-composition of behaviours
recorded in separate processes under K values of PYTHONHASHSEED)."""
from __future__ import annotations

import concurrent.futures as cf
import json
import os
import subprocess
import sys

from .. import rb, tlc
from ..common import Report, parse_args

PROP = "C12"
CFG = "INIT Init\nNEXT Next\nINVARIANT SameEvent\nCHECK_DEADLOCK FALSE\n"
REC = os.path.join(os.path.dirname(os.path.dirname(os.path.abspath(__file__))), "det_record.py")


AGAIN = "same-process-second-run"


def run_seed(seed, inp_path, out_path):
    if seed == AGAIN:
        # not another hash seed but another RUN: every graph is restructured twice in one process from the same block objects and the
        # second run is the one recorded
        env = dict(os.environ, PYTHONHASHSEED="0", VERIF_DET_AGAIN="1")
    else:
        env = dict(os.environ, PYTHONHASHSEED=str(seed))
    r = subprocess.run([sys.executable, REC, inp_path, out_path], env=env, capture_output=True, text=True, timeout=3000)
    if r.returncode != 0:
        raise tlc.MachineryError("det_record failed (seed %s): %s" % (seed, r.stderr[-2000:]))


def main(argv):
    args = parse_args(PROP, argv)
    rep = Report(PROP, args.tier, args.seed, "other")
    quick = args.tier == "quick"
    K = 4 if quick else 16
    seeds = [0] + [1000 * (args.seed + 1) + 17 * k for k in range(1, K)] + [AGAIN]
    if args.replay:
        with open(args.replay) as f:
            inputs = [json.load(f)["input"]["id"]]
        rep.replay_only = args.replay
    else:
        doms = "XRB" + ("S" if os.path.exists(os.path.join(os.path.dirname(REC), "pygen.py")) else "")
        inputs = rb.domain_inputs(args.tier, args.seed, doms, scale=0.3 if quick else 0.25)
    d = rb.workdir(PROP)
    try:
        nsh = min(args.jobs, max(1, len(inputs)))
        shards = [inputs[i::nsh] for i in range(nsh)]
        jobs = []
        for i, sh in enumerate(shards):
            ip = os.path.join(d, "in-%02d.json" % i)
            with open(ip, "w") as f:
                json.dump(sh, f)
            for k, sd in enumerate(seeds):
                jobs.append((sd, ip, os.path.join(d, "out-%02d-%02d.json" % (i, k))))
        with cf.ThreadPoolExecutor(max_workers=args.jobs) as ex:
            list(ex.map(lambda j: run_seed(*j), jobs))
        envs = []
        for i in range(nsh):
            runs = []
            for k in range(len(seeds)):
                with open(os.path.join(d, "out-%02d-%02d.json" % (i, k))) as f:
                    runs.append(json.load(f))
            rp = os.path.join(d, "runs-%02d.json" % i)
            with open(rp, "w") as f:
                json.dump(runs, f, separators=(",", ":"))
            envs.append({"RUNS": rp})
        results = tlc.run_shards("Determinism", CFG, envs, jobs=args.jobs, workers=1, timeout=3000, heap="3g")
        tlc.require_ok(results, "Determinism")
        states = gen = 0
        nevents = 0
        nontrivial = 0
        for i, tr in enumerate(results):
            states += tr.distinct
            gen += tr.generated
            with open(os.path.join(d, "out-%02d-00.json" % i)) as f:
                ref = json.load(f)
            nevents += sum(len(x["events"]) for x in ref)
            nontrivial += sum(1 for x in ref if len(x["events"]) > 12)
            expect = sum((len(x["events"]) + 1) * (len(seeds) - 1) for x in ref)
            if tr.distinct > expect or (not tr.violations and tr.distinct != expect):
                raise tlc.MachineryError("Determinism walked %d states, expected %d" % (tr.distinct, expect))
            for v in tr.violations:
                st = tlc.parse_state(v["states"][-1])
                x = ref[st["tid"] - 1]
                ev = x["events"][st["l"] - 1][:300] if st["l"] >= 1 else ""
                rep.violation(st["bad"], {"id": x["id"]}, detail={"first_differing_event_index": st["l"], "reference_event": ev, "seed": seeds[st["other"] - 1]})
        # design-level statement of the property: Pipeline.tla computes the result from the input graph ALONE (no hash seed exists in the
        # model); the real code, run under hash seeds other than the reference one, must produce exactly that result
        if not args.replay:
            from . import pipefam

            pin = [x for x in pipefam.pipe_inputs(args.tier, args.seed)]
            pc = {}
            for hs in seeds[1:2] if quick else seeds[1:4]:
                try:
                    out = pipefam.run_pipeline_under_seed(pin, d, args.jobs, hs)
                except tlc.MachineryError as e:
                    rep.add_drift({"pipeline_conformance_run_failed": str(e)[:300], "hash_seed": hs})
                    continue
                pc[str(hs)] = {"behaviours": out["behaviours"], "drift": len(out["drift"])}
                states += out["states"]
                for x in out["drift"][:10]:
                    print("DRIFT: under PYTHONHASHSEED=%d the code's result differs from Pipeline.tla's on %s: %s" % (hs, x["id"], x["what"]))
                    rep.add_drift({"pipeline_level": True, "hash_seed": hs, **x})
            rep.coverage["model_predicts_result_under_other_hash_seeds"] = pc
    finally:
        tlc.cleanup(d)
    rep.coverage.update({
        "explanation": "Each input is restructured (with every primitive and name-generator call traced) in %d separate processes under different PYTHONHASHSEED values; "
                       "TLC walks every other run in lockstep with the reference run (Determinism.tla) and fails at the first event that differs. Events are rendered "
                       "with dictionary insertion order, target order, tables and counters explicit, so a name or order difference is visible." % len(seeds),
        "states": states, "transitions": gen, "traces_validated_against_impl": len(inputs) * len(seeds), "evaluations": len(inputs) * len(seeds),
        "distinct_nontrivial": nontrivial, "events_compared": nevents * (len(seeds) - 1), "hash_seeds": [s for s in seeds if s != AGAIN],
        "same_process_second_run": "one more run per input in which the graph is restructured twice in one process from the same block objects (domains X, R, K); the second run is compared with the reference like the runs under other hash seeds",
        "rule": "non-trivial = an input whose behaviour has more than 12 events (restructuring did real work)",
        "samples": inputs[:2] + inputs[-2:],
    })
    rep.assumptions += ["the decisive ingredient is running real processes under different hash seeds; TLA+/TLC contributes the lockstep comparison at operation granularity"]
    return rep.finish()
