"""C13 - graph queries return what their definitions prescribe (Queries.tla).
The real queries are run on every graph of the exhaustive domain Q(n, d) and on random larger graphs (with declared
back edges too); TLC compares every recorded result with the path/set-based definition and certifies that the recorded
plain graphs are the whole of Q(n, d)."""
from __future__ import annotations

import json
import multiprocessing as mp
import os
import random

from .. import rb, tlc
from ..common import Report, parse_args

PROP = "C13"
CFG = "INIT Init\nNEXT Next\nINVARIANT Holds\nCHECK_DEADLOCK FALSE\n"


def _work(task):
    kind, payload, path = task
    from .. import queries

    recs = []
    if kind == "Q":
        for g in payload:
            recs.append(queries.run_queries(g))
    elif kind == "H":
        seed, graphs = payload
        rng = random.Random(seed)
        for g in graphs:
            recs += queries.hier_cases(g, rng)
    else:
        seed, cnt, nmax = payload
        rng = random.Random(seed)
        for _ in range(cnt):
            n = rng.randint(3, nmax)
            g, b = queries.random_graph(rng, n, 3, with_be=rng.random() < 0.5)
            recs.append(queries.run_queries(g, b, plain=False, rng=rng))
    with open(path, "w") as f:
        json.dump(recs, f, separators=(",", ":"))
    if kind == "H":
        return {"path": path, "n": len(recs), "samples": [{"lvl": r["lvl"], "s": r["s"]} for r in recs[:2]], "nontrivial": len(recs), "hier": True}
    return {"path": path, "n": len(recs), "samples": [r["g"] for r in recs[:2]],
            "nontrivial": sum(1 for r in recs if any(len(c) > 1 for c in r["scc"]) or any(x[2] for x in r["reach"]))}


ICFG = "INIT Init\nNEXT Next\nINVARIANT Holds\nINVARIANT Terminal\nINVARIANT Bounded\nCHECK_DEADLOCK FALSE\n"


def impl_layer(rep, quick, paths, jobs):
    """QueryImpl.tla: (E1) the transcriptions of Tarjan / DFS / _imm_doms equal the definitions on every graph of Q(n, d) enumerated by TLC
    itself, and the dominator worklist reaches the path-based dominators in EVERY order in which a set can be pushed, never tripping the
    monotonicity assertion; (conformance) the recorded emission order of the real compute_scc equals the transcription's. Disagreements are
    DESIGN / DRIFT lines, never verdicts."""
    out = {"module": "QueryImpl.tla", "fun": {}, "doms": {}, "scc_order_conformance": {}}
    doms = [(1, 2), (2, 2), (3, 2)] if quick else [(1, 2), (2, 3), (3, 2), (4, 2)]
    for mode in ("fun", "doms"):
        for n, dd in doms:
            r = tlc.run("QueryImpl", ICFG, {"MODE": mode, "QN": str(n), "QD": str(dd), "CASES": ""}, workers=jobs, timeout=14000, heap="6g")
            if r.error:
                raise tlc.MachineryError("QueryImpl %s: %s" % (mode, r.error[:2000]))
            out[mode]["Q(%d,%d)" % (n, dd)] = {"states": r.distinct, "design_failures": len(r.violations)}
            rep.coverage["states_impl"] = rep.coverage.get("states_impl", 0) + r.distinct
            for v in r.violations[:5]:
                st = tlc.parse_state(v["states"][-1])
                print("DESIGN: property=C13 QueryImpl.tla (%s) violates %s on graph %s" % (mode, v["inv"], st.get("g")))
                rep.add_drift({"design_level": True, "mode": mode, "inv": v["inv"], "g": st.get("g")})
    results = tlc.run_shards("QueryImpl", "INIT Init\nNEXT Next\nINVARIANT Holds\nCHECK_DEADLOCK FALSE\n",
                             [{"MODE": "trace", "QN": "0", "QD": "0", "CASES": p} for p in paths], jobs=jobs, workers=1, timeout=6000, heap="3g")
    tlc.require_ok(results, "QueryImpl (trace)")
    n = bad = 0
    for r in results:
        n += r.distinct
        bad += len(r.violations)
        for v in r.violations[:2]:
            rep.add_drift({"conformance": "compute_scc emission order", "tid": tlc.parse_state(v["states"][0]).get("tid")})
    out["scc_order_conformance"] = {"graphs": n, "drift": bad}
    return out


def main(argv):
    from .. import queries

    args = parse_args(PROP, argv)
    rep = Report(PROP, args.tier, args.seed, "model_checking")
    quick = args.tier == "quick"
    d = rb.workdir(PROP)
    tasks = []
    certs = []  # (n, d, shard index)
    try:
        if args.replay:
            with open(args.replay) as f:
                rp = json.load(f)["input"]
            rep.replay_only = args.replay
            path = os.path.join(d, "q-replay.json")
            with open(path, "w") as f:
                json.dump([queries.run_queries(rp["g"], rp.get("b"), plain=False, rng=random.Random(0))], f)
            outs = [{"path": path, "n": 1, "samples": [rp["g"]], "nontrivial": 1}]
            envs = [{"CASES": path, "EXHN": "0", "EXHD": "0", "EXH": ""}]
        else:
            # exhaustive part: each Q(n, dd) goes to ONE shard so that TLC can certify set equality there
            doms = [(1, 3), (2, 3), (3, 2)] if quick else [(1, 3), (2, 3), (3, 2)]
            for n, dd in doms:
                tasks.append(("Q", list(queries.q_domain(n, dd)), os.path.join(d, "q-%d-%d.json" % (n, dd))))
                certs.append((n, dd))
            if not quick:
                # Q(3,3): 614 125 graphs - code is run on all, validation sharded (certification by count per shard)
                big = list(queries.q_domain(3, 3))
                k = 64
                for i in range(k):
                    tasks.append(("Q", big[i::k], os.path.join(d, "qb-%02d.json" % i)))
            # sub-graphs of regions inside restructured hierarchies (closed CFGs with 4 and 5 nodes, a sample)
            from .. import domains as _dm

            hg = [_dm.graph_to_named(g) for g in _dm.closed_cfgs(4)] + [_dm.graph_to_named(g) for g in rb.closed5_canon()]
            hrng = random.Random(args.seed * 31 + 9)
            hg = hrng.sample(hg, 240 if quick else 2400)
            for i in range(8):
                tasks.append(("H", (args.seed * 77 + i, hg[i::8]), os.path.join(d, "h-%02d.json" % i)))
            nr = 8 if quick else 64
            for i in range(nr):
                tasks.append(("R", (args.seed * 1000 + i, 150 if quick else 600, 7 if quick else 9), os.path.join(d, "r-%02d.json" % i)))
            ctx = mp.get_context("fork")
            with ctx.Pool(args.jobs) as pool:
                outs = pool.map(_work, tasks)
            envs = []
            for i, o in enumerate(outs):
                if i < len(certs):
                    envs.append({"CASES": o["path"], "EXHN": str(certs[i][0]), "EXHD": str(certs[i][1]), "EXH": ""})
                else:
                    envs.append({"CASES": o["path"], "EXHN": "0", "EXHD": "0", "EXH": ""})
        results = tlc.run_shards("Queries", CFG, envs, jobs=args.jobs, workers=1, timeout=6000, heap="3g")
        tlc.require_ok(results, "Queries")
        impl = {} if args.replay else impl_layer(rep, quick, [o["path"] for o in outs if not o.get("hier")], args.jobs)
        states = gen = 0
        total = 0
        for o, tr_ in zip(outs, results):
            states += tr_.distinct
            gen += tr_.generated
            total += o["n"]
            if tr_.distinct != o["n"] + 1:
                raise tlc.MachineryError("Queries evaluated %d states, expected %d" % (tr_.distinct, o["n"] + 1))
            if tr_.violations:
                with open(o["path"]) as f:
                    recs = json.load(f)
            for v in tr_.violations:
                st = tlc.parse_state(v["states"][0])
                for q in st["bad"]:
                    if q.startswith("MACHINERY"):
                        raise tlc.MachineryError("Queries: " + q)
                    r = recs[st["tid"] - 1]
                    if "lvl" in r:
                        rep.violation(q, {"H": r["H"], "lvl": r["lvl"], "s": r["s"]}, detail={k: r.get(k) for k in ("h", "e", "x", "t", "heexc")})
                        continue
                    rep.violation(q, {"g": r["g"], "b": r["b"]}, detail={k: r.get(k) for k in ("scc", "head", "doms", "pdoms", "idoms", "ipdoms")})
    finally:
        tlc.cleanup(d)
    rep.coverage.update({
        "states": states, "transitions": gen, "traces_validated_against_impl": total, "evaluations": total,
        "distinct_nontrivial": sum(o["nontrivial"] for o in outs),
        "rule": "every digraph over nodes 0..n-1 plus one external name with out-degree <= d (duplicate targets and self loops included) for "
                "(n,d) in {(1,3),(2,3),(3,2)} (quick) plus (3,3) (thorough) - certified by TLC to be the whole TLA+ set QDomain(n,d) - and seeded random "
                "3-9 node graphs with out-degree <=3, external targets and declared back edges; per graph: compute_scc, find_head, headers/entries and "
                "exiting/exits for every subset (<=64 sampled beyond that), is_reachable_dfs for every pair, _doms, _post_doms, _imm_doms; "
                "non-trivial = the graph has a multi-node SCC or at least one reachable pair",
        "exhaustive": True, "exhaustive_scope": "Q(1,3), Q(2,3), Q(3,2)" + ("" if quick else ", Q(3,3)"),
        "impl_layer": impl,
        "samples": [s for o in outs[:3] for s in o["samples"][:1]] + [s for o in outs[-1:] for s in o["samples"][:1]],
    })
    return rep.finish()
