"""C14 - graph edit primitives reroute exactly the requested arcs.

E1: TLC explores every history of edit operations (Edit.tla: Impl transcription as the step, EditPost contract
evaluated on every transition) from seed states recorded from the real code - every level, every ordered choice of
predecessors P and successors S.  E3: every state TLC generated is replayed into real SCFG objects (unproject, then the
real primitive with the same arguments) and the projected result is compared with TLC's state.  A contract clause that
is false on a transition whose post-state the real code reproduces exactly is a VIOLATION (with the history as its
input); a transition the code does not reproduce is DRIFT."""
from __future__ import annotations

import json
import multiprocessing as mp
import os
import re
from typing import Any, Dict, List

from .. import edits, rb, tlc
from ..common import Report, parse_args

PROP = "C14"
CFG = "INIT Init\nNEXT Next\nCHECK_DEADLOCK FALSE\n"
CFG_SIM = "INIT Init\nNEXT Next\nCHECK_DEADLOCK FALSE\n"


_SEP = "\x1e"
_STATE_HDR = re.compile(r"^State \d+:$")


def _split_dump(dump: str, k: int, prefix: str):
    """Streams TLC's state dump into k chunk files (round robin, one record per state) so that the dump - gigabytes in the thorough
    tier - is never held in memory as a whole.  Returns (paths, number of states)."""
    paths = ["%s-chunk-%03d.txt" % (prefix, i) for i in range(k)]
    fs = [open(p, "w") for p in paths]
    n = -1
    try:
        with open(dump) as f:
            for line in f:
                if _STATE_HDR.match(line.rstrip("\n")):
                    n += 1
                    fs[n % k].write(_SEP)
                elif n >= 0:
                    fs[n % k].write(line)
    finally:
        for x in fs:
            x.close()
    return paths, n + 1


def _chunk_worker(task):
    path, seeds = task
    with open(path) as f:
        texts = f.read().split(_SEP)[1:]
    os.remove(path)
    out = []
    for txt in texts:
        st = tlc.parse_state(txt)
        hist = st["hist"]
        if not hist:
            continue
        seed = seeds[st["seed"] - 1]
        bad = sorted(st["bad"])
        diffs = edits.replay(seed, hist, st["H"], st["ng"], "Impl-aborts" in bad)
        if bad or diffs:
            rec = {"seed": st["seed"], "hist": hist, "bad": bad, "diffs": diffs[:6]}
            if diffs:
                rec["real"] = edits.real_case(seed, hist)
            out.append(rec)
        else:
            out.append(None)
    return out


def run_config(tag: str, seeds: List[Dict[str, Any]], env: Dict[str, str], d: str, jobs: int, simulate: str | None = None, depth_cap: int = 0):
    sp = os.path.join(d, tag + "-seeds.json")
    rp = os.path.join(d, tag + "-rank.json")
    with open(sp, "w") as f:
        json.dump([{k: s[k] for k in ("H", "ng", "root")} for s in seeds], f)
    with open(rp, "w") as f:
        json.dump(edits.rank_table(seeds), f)
    dump = os.path.join(d, tag + ".dump")
    e = dict(env)
    e.update({"SEEDS": sp, "RANK": rp})
    extra = ["-dump", dump]
    r = tlc.run("Edit", CFG, e, workers=jobs, extra=extra, heap="6g", timeout=3000, cont=False, tag="edit-" + tag)
    if r.error:
        raise tlc.MachineryError("Edit MC (%s): %s" % (tag, r.error[:2000]))
    k = max(1, jobs * 4)
    paths, nstates = _split_dump(dump, k, os.path.join(d, tag))
    os.remove(dump)
    if nstates != r.distinct:
        raise tlc.MachineryError("dump has %d states, TLC reported %d" % (nstates, r.distinct))
    chunks = [(p, seeds) for p in paths]
    ctx = mp.get_context("fork")
    with ctx.Pool(jobs) as pool:
        res = pool.map(_chunk_worker, chunks)
    flat = [x for ch in res for x in ch]
    return r, flat


TRACE_CFG = "INIT Init\nNEXT Next\nINVARIANT Holds\nCHECK_DEADLOCK FALSE\n"


def trace_verdicts(cases, d, jobs, tag):
    k = max(1, min(jobs, len(cases)))
    paths = []
    for i in range(k):
        p = os.path.join(d, "%s-%02d.json" % (tag, i))
        with open(p, "w") as f:
            json.dump(cases[i::k], f, separators=(",", ":"))
        paths.append(p)
    results = tlc.run_shards("EditTrace", TRACE_CFG, [{"CASES": p} for p in paths], jobs=jobs, workers=1, timeout=3000)
    tlc.require_ok(results, "EditTrace")
    out, states, gen = [], 0, 0
    for i, tr in enumerate(results):
        states += tr.distinct
        gen += tr.generated
        for v in tr.violations:
            st = tlc.parse_state(v["states"][0])
            out.append((i + (st["tid"] - 1) * k, sorted(st["bad"])))
    return out, states, gen


def main(argv):
    args = parse_args(PROP, argv)
    rep = Report(PROP, args.tier, args.seed, "model_checking")
    quick = args.tier == "quick"
    d = rb.workdir(PROP)
    total_states = total_gen = replayed = 0
    samples = []
    drift_cases: List[Dict[str, Any]] = []
    try:
        runs = []
        if args.replay:
            with open(args.replay) as f:
                rp = json.load(f)["input"]
            rep.replay_only = args.replay
            seeds = [rp["seed_state"]]
            n = len(rp["hist"])
            runs.append(("replay", seeds, {"MAXDEPTH": str(n), "MAXP": "3", "MAXS": "3", "OPS": "BCTR"}))
        else:
            seeds = edits.make_seeds(args.seed, 14 if quick else 40, max_level=6 if quick else 7)
            runs.append(("d1", seeds, {"MAXDEPTH": "1", "MAXP": "2", "MAXS": "2", "OPS": "BCTR"}))
            runs.append(("wide", [edits.wide_seed()], {"MAXDEPTH": "1", "MAXP": "1", "MAXS": "3", "OPS": "BCT"}))
            runs.append(("handmade", edits.handmade_seeds(), {"MAXDEPTH": "1", "MAXP": "2", "MAXS": "2", "OPS": "BCT"}))
            small = [s for s in seeds if len(s["H"]) <= 7][: (3 if quick else 8)]
            runs.append(("d2", small, {"MAXDEPTH": "2", "MAXP": "1", "MAXS": "2" if not quick else "1", "OPS": "BCTR"}))
        for tag, sds, env in runs:
            r, flat = run_config(tag, sds, env, d, args.jobs)
            total_states += r.distinct
            total_gen += r.generated
            replayed += len(flat)
            for x in flat:
                if x is None:
                    continue
                seed = sds[x["seed"] - 1]
                inp = {"seed": seed.get("from"), "hist": x["hist"], "seed_state": {k: seed[k] for k in ("H", "ng", "root", "ord") if k in seed}}
                if args.replay and x["hist"] != rp["hist"]:
                    continue
                if x["bad"] and not x["diffs"]:
                    last = x["hist"][-1]
                    for clause in x["bad"]:
                        rep.violation("%s/%s" % (last["op"], clause), inp, detail={"failed": x["bad"]},
                                      signature={"op": last["op"], "clause": clause})
                elif x["diffs"]:
                    rep.add_drift({"seed": seed.get("from"), "hist": x["hist"], "diffs": x["diffs"], "spec_bad": x["bad"]})
                    drift_cases.append((inp, x["real"]))
            samples.append({"run": tag, "seeds": len(sds), "states": r.distinct, "first_seed": sds[0].get("from")})
        # transitions the code does not reproduce: judge the REAL pre/post pair against the contract (E2, EditTrace.tla)
        if drift_cases:
            v, st_, gen_ = trace_verdicts([c for _, c in drift_cases], d, args.jobs, "drift")
            total_states += st_
            total_gen += gen_
            for (idx, bad) in v:
                inp, c = drift_cases[idx]
                for clause in bad:
                    rep.violation("%s/%s" % (c["op"], clause), inp, detail={"failed": bad, "real_exc": c["exc"]}, signature={"op": c["op"], "clause": clause})
        # E2: every edit-primitive call made by the real pipeline on the restructure domain
        if not args.replay:
            # (N: block names from the name generator's own namespace, some of them on a generator that has already served another graph -
            # an edit that draws a name which is already present replaces a block nobody asked to change)
            inputs = rb.domain_inputs(args.tier, args.seed, "XRBN", scale=0.5 if quick else 1.0)
            res = rb.record_domain(inputs, os.path.join(d, "rb"), jobs=args.jobs, shards=args.jobs, stages=False, events=True,
                                   derive={"edits": "harness.evtcases:edit_cases"}, drop_cases=True)
            live = [r_ for r_ in res if r_["derived"]["edits"]["n"]]
            results = tlc.run_shards("EditTrace", TRACE_CFG, [{"CASES": r_["derived"]["edits"]["path"]} for r_ in live], jobs=args.jobs, workers=1, timeout=3000)
            tlc.require_ok(results, "EditTrace")
            nev = 0
            for r_, tr in zip(live, results):
                total_states += tr.distinct
                total_gen += tr.generated
                nev += r_["derived"]["edits"]["n"]
                if tr.distinct != r_["derived"]["edits"]["n"]:
                    raise tlc.MachineryError("EditTrace evaluated %d of %d events" % (tr.distinct, r_["derived"]["edits"]["n"]))
                bycase = {s_["case"]: s_ for s_ in r_["summary"] if s_.get("build") == "ok"}
                for v_ in tr.violations:
                    st = tlc.parse_state(v_["states"][0])
                    ci = r_["derived"]["edits"]["index"][st["tid"] - 1]
                    for clause in st["bad"]:
                        rep.violation("pipeline-event/%s" % clause, {"id": bycase[ci]["id"], "event": st["tid"]}, detail={"failed": sorted(st["bad"])})
            replayed += nev
            samples.append({"run": "pipeline events", "behaviours": sum(r_["ncases"] for r_ in res), "edit_events": nev})
    finally:
        tlc.cleanup(d)
    rep.coverage.update({
        "states": total_states, "transitions": total_gen, "traces_validated_against_impl": replayed,
        "evaluations": replayed, "distinct_nontrivial": replayed,
        "rule": "histories of insert_block / insert_block_and_control_blocks / join_tails_and_exits / join_returns from seed states recorded from the "
                "real code (flat graphs, graphs with loop regions, latches, assignment blocks, branch/head/tail regions) with every level and every ordered "
                "P (<=2) and S (<=2) at depth 1, a four-way block with |S|<=3, and depth-2 histories on small seeds; every TLC state is replayed on real objects; "
                "every history is distinct (the history is part of the state)",
        "exhaustive": True, "exhaustive_scope": "all (level, P, S) choices within the stated bounds for the listed seeds",
        "samples": samples,
    })
    rep.assumptions += ["unproject (harness/unproject.py) rebuilds live objects faithfully from an abstract state",
                        "a clause failure counts as a violation only when the real code reproduces the post-state exactly"]
    return rep.finish()
