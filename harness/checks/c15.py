"""C15 - dictionary / YAML serialisation round-trips every graph (RoundTrip.tla on write-read-write-read chains
recorded after every stage of every behaviour, for both paths)."""
from __future__ import annotations

import json
import os

from .. import rb, tlc
from ..common import Report, parse_args

PROP = "C15"
CFG = "INIT Init\nNEXT Next\nINVARIANT Holds\nCHECK_DEADLOCK FALSE\n"


def main(argv):
    args = parse_args(PROP, argv)
    rep = Report(PROP, args.tier, args.seed, "model_checking")
    quick = args.tier == "quick"
    if args.replay:
        with open(args.replay) as f:
            inputs = [json.load(f)["input"]["id"]]
        rep.replay_only = args.replay
    else:
        inputs = rb.domain_inputs(args.tier, args.seed, "XRB", scale=0.3 if quick else 0.5)
        # graphs from the source front end: the library has no serialised form for PythonASTBlock (known finding)
        inputs += rb.domain_inputs(args.tier, args.seed, "S", scale=0.2 if quick else 0.1)
    d = rb.workdir(PROP)
    try:
        res = rb.record_domain(inputs, d, jobs=args.jobs, shards=args.jobs, stages=True, hook="harness.hooks:roundtrip",
                               derive={"rt": "harness.hooks:roundtrip_cases"}, drop_cases=True)
        live = [r for r in res if r["derived"]["rt"]["n"]]
        results = tlc.run_shards("RoundTrip", CFG, [{"CASES": r["derived"]["rt"]["path"]} for r in live], jobs=args.jobs, workers=1, timeout=3000, heap="3g")
        tlc.require_ok(results, "RoundTrip")
        states = gen = ncases = 0
        for r, tr in zip(live, results):
            states += tr.distinct
            gen += tr.generated
            n = r["derived"]["rt"]["n"]
            ncases += n
            if tr.distinct != n:
                raise tlc.MachineryError("RoundTrip evaluated %d of %d cases" % (tr.distinct, n))
            if tr.violations:
                with open(r["derived"]["rt"]["path"]) as f:
                    recs = json.load(f)
            bycase = {s["case"]: s for s in r["summary"] if s.get("build") == "ok"}
            for v in tr.violations:
                st = tlc.parse_state(v["states"][0])
                rec = recs[st["tid"] - 1]
                s = bycase[r["derived"]["rt"]["index"][st["tid"] - 1]]
                kinds = sorted({b["k"] for b in rec["H"].values()})
                for clause in st["bad"]:
                    rep.violation(clause, {"id": s["id"], "stage": rec["stage"], "path": rec["path"]},
                                  detail={"excw": rec["excw"], "excr": rec["excr"], "excw2": rec["excw2"], "excr2": rec["excr2"]},
                                  signature={"clause": clause, "exc": (rec["excw"] or rec["excr"] or rec["excw2"] or rec["excr2"]).split(":")[0], "has_ast": "ast" in kinds})
    finally:
        tlc.cleanup(d)
    summ = [s for r in res for s in r["summary"]]
    ok = [s for s in summ if s.get("build") == "ok"]
    nt = [s for s in ok if s["nblocks"] > s["n"] + 1]
    rep.coverage.update({
        "states": states, "transitions": gen, "traces_validated_against_impl": ncases, "evaluations": ncases,
        "distinct_nontrivial": len({json.dumps(s["id"], sort_keys=True) for s in nt}),
        "rule": "write-read-write-read chains through to_dict/from_dict and to_yaml/from_yaml after every stage (input, closed, loops, branches) of every "
                "behaviour over closed CFGs (plain blocks) and std-lib bytecode CFGs; non-trivial = the graph written contains regions and synthetic blocks",
        "exhaustive": False, "samples": [s["id"] for s in nt[:3]],
    })
    return rep.finish()
