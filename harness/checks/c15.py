"""C15 - dictionary / YAML serialisation round-trips every graph (RoundTrip.tla on write-read-write-read chains
recorded after every stage of every behaviour, for both paths)."""
from __future__ import annotations

import json
import os

from .. import rb, tlc
from ..common import Report, parse_args

PROP = "C15"
CFG = "INIT Init\nNEXT Next\nINVARIANT Holds\nCHECK_DEADLOCK FALSE\n"


# block names that a serialiser can get wrong: words YAML 1.1 reads as booleans / null / numbers, and characters that need quoting
WORDS = ["yes", "no", "on", "off", "true", "false", "null", "y", "n", "Yes", "NO", "True", "False", "None", "Null", "TRUE", "nan", "inf", "e1", "_1",
         "1e3", "0x1f", "0o17", "1_000", "1.5", "007", "0b11", "1e-3", "+1", "-1", ".5", "~", "a.b", "a-b", "a b", "it's", 'say "x"', "a:b", "a: b", "#c",
         "[x]", "{y}", "a, b", "- z", "&a", "*a", "!t", "%p", "@q", "`r", "a\\b", "\u00e9", "1:2", "2001-01-01", "=", "<<", "?", "", " ", "x\ty", "'", '"']


def word_inputs(seed: int, count: int):
    """Closed CFGs (loops, branches, several exits) whose block names are drawn from WORDS."""
    import random

    from .. import domains

    rng = random.Random(seed * 7577 + 13)
    pool = [g for g in domains.closed_cfgs(4)] + rb.closed5_canon()
    out = []
    for g in rng.sample(pool, min(count, len(pool))):
        names = rng.sample(WORDS, len(g))
        out.append({"dom": "N", "named": {names[i]: [names[t] for t in g[i]] for i in range(len(g))}, "words": True})
    return out


def serial_impl(rep, res, args, d):
    """SerialImpl.tla: transcriptions of to_dict and from_dict / make_scfg.  (conformance) DumpOf(H) equals the dictionary the real writer
    produced and LoadOf of it equals the re-read graph, dict order included; (design) on the hierarchies the pipeline model builds from every
    closed CFG, Load . Dump is the identity and a second Dump reproduces the first.  DRIFT / DESIGN lines, never verdicts."""
    from .. import edits
    from . import designfam

    out = {"module": "SerialImpl.tla", "states": 0}
    live = [r for r in res if r["derived"]["ser"]["n"]]
    for r in live:
        with open(r["derived"]["ser"]["path"]) as f:
            cases = json.load(f)
        names = set()
        for c in cases:
            names |= set(c["H"]) | set(c["D"])
        with open(r["derived"]["ser"]["path"], "w") as f:
            json.dump({"rank": {n: i for i, n in enumerate(sorted(names))}, "cases": cases}, f, separators=(",", ":"))
    cfg = "INIT Init\nNEXT Next\nINVARIANT NoDrift\nCHECK_DEADLOCK FALSE\n"
    results = tlc.run_shards("SerialImpl", cfg, [{"MODE": "trace", "CASES": r["derived"]["ser"]["path"], "RANK": ""} for r in live], jobs=args.jobs, workers=1, timeout=3000, heap="3g")
    tlc.require_ok(results, "SerialImpl (trace)")
    kinds = {}
    n = 0
    for r, tr in zip(live, results):
        n += tr.distinct
        if tr.distinct != r["derived"]["ser"]["n"]:
            raise tlc.MachineryError("SerialImpl evaluated %d of %d cases" % (tr.distinct, r["derived"]["ser"]["n"]))
        for v in tr.violations:
            for k in tlc.parse_state(v["states"][0])["drift"]:
                kinds[k] = kinds.get(k, 0) + 1
    for k, c in sorted(kinds.items()):
        print("DRIFT: serialiser: the transcription and the code disagree (%s) on %d recorded graphs" % (k, c))
        rep.add_drift({"serialiser": k, "cases": c})
    out.update({"conformance_cases": n, "conformance_drift": kinds, "states": n})
    # design level on the pipeline model's own hierarchies
    ns = [2, 3, 4]
    rank = edits.rank_table([{"H": {str(i): {"jt": []} for i in range(8)}}], kmax=60)
    rp = os.path.join(d, "ser-rank.json")
    with open(rp, "w") as f:
        json.dump(rank, f)
    envs, outs = [], []
    for nn in ns:
        for k in range(2, designfam.nchoices(nn) + 1):
            o = os.path.join(d, "ser-model-%d-%02d.json" % (nn, k))
            envs.append({"N": str(nn), "SHARD": str(k), "RANK": rp, "OUT": o})
            outs.append(o)
    md = tlc.run_shards("ModelDump", "INIT Init\nNEXT Next\nCHECK_DEADLOCK FALSE\n", envs, jobs=args.jobs, workers=1, timeout=20000, heap="3g")
    tlc.require_ok(md, "ModelDump")
    res2 = tlc.run_shards("SerialImpl", cfg, [{"MODE": "model", "CASES": o, "RANK": rp} for o in outs], jobs=args.jobs, workers=1, timeout=6000, heap="3g")
    tlc.require_ok(res2, "SerialImpl (model)")
    fails = sum(len(tr.violations) for tr in res2)
    ms = sum(tr.distinct for tr in res2)
    if fails:
        print("DESIGN: property=C15 Load . Dump is not the identity on %d hierarchies of the pipeline model" % fails)
        rep.add_drift({"design_level": True, "serialiser_round_trip_failures": fails})
    out.update({"design_states": ms, "design_failures": fails, "design_scope": "every stage of every closed CFG with <= 4 nodes (Pipeline.tla)"})
    out["states"] += ms
    return out


def main(argv):
    args = parse_args(PROP, argv)
    rep = Report(PROP, args.tier, args.seed, "model_checking")
    quick = args.tier == "quick"
    if args.replay:
        with open(args.replay) as f:
            inputs = [json.load(f)["input"]["id"]]
        rep.replay_only = args.replay
    else:
        inputs = rb.domain_inputs(args.tier, args.seed, "XRB", scale=0.3 if quick else 0.5)
        # graphs from the source front end: the library has no serialised form for PythonASTBlock (known finding)
        inputs += rb.domain_inputs(args.tier, args.seed, "S", scale=0.2 if quick else 0.1)
        inputs += word_inputs(args.seed, 150 if quick else 1500)
        inputs += rb.domain_inputs(args.tier, args.seed, "M")
    d = rb.workdir(PROP)
    try:
        res = rb.record_domain(inputs, d, jobs=args.jobs, shards=args.jobs, stages=True, hook="harness.hooks:roundtrip",
                               derive={"rt": "harness.hooks:roundtrip_cases", "ser": "harness.hooks:serial_cases"}, drop_cases=True)
        live = [r for r in res if r["derived"]["rt"]["n"]]
        results = tlc.run_shards("RoundTrip", CFG, [{"CASES": r["derived"]["rt"]["path"]} for r in live], jobs=args.jobs, workers=1, timeout=3000, heap="3g")
        tlc.require_ok(results, "RoundTrip")
        states = gen = ncases = 0
        for r, tr in zip(live, results):
            states += tr.distinct
            gen += tr.generated
            n = r["derived"]["rt"]["n"]
            ncases += n
            if tr.distinct != n:
                raise tlc.MachineryError("RoundTrip evaluated %d of %d cases" % (tr.distinct, n))
            if tr.violations:
                with open(r["derived"]["rt"]["path"]) as f:
                    recs = json.load(f)
            bycase = {s["case"]: s for s in r["summary"] if s.get("build") == "ok"}
            for v in tr.violations:
                st = tlc.parse_state(v["states"][0])
                rec = recs[st["tid"] - 1]
                s = bycase[r["derived"]["rt"]["index"][st["tid"] - 1]]
                kinds = sorted({b["k"] for b in rec["H"].values()})
                for clause in st["bad"]:
                    rep.violation(clause, {"id": s["id"], "stage": rec["stage"], "path": rec["path"]},
                                  detail={"excw": rec["excw"], "excr": rec["excr"], "excw2": rec["excw2"], "excr2": rec["excr2"]},
                                  signature={"clause": clause, "exc": (rec["excw"] or rec["excr"] or rec["excw2"] or rec["excr2"]).split(":")[0], "has_ast": "ast" in kinds})
        if not args.replay:
            impl = serial_impl(rep, res, args, d)
            rep.coverage["serialiser_impl_layer"] = impl
            states += impl["states"]
    finally:
        tlc.cleanup(d)
    summ = [s for r in res for s in r["summary"]]
    ok = [s for s in summ if s.get("build") == "ok"]
    nt = [s for s in ok if s["nblocks"] > s["n"] + 1]
    rep.coverage.update({
        "states": states, "transitions": gen, "traces_validated_against_impl": ncases, "evaluations": ncases,
        "distinct_nontrivial": len({json.dumps(s["id"], sort_keys=True) for s in nt}),
        "rule": "write-read-write-read chains through to_dict/from_dict and to_yaml/from_yaml after every stage (input, closed, loops, branches) of every "
                "behaviour over closed CFGs (plain blocks), std-lib bytecode CFGs and closed CFGs whose block names are YAML-sensitive words or need quoting (%d names);" % len(WORDS) + " non-trivial = the graph written contains regions and synthetic blocks",
        "exhaustive": False, "samples": [s["id"] for s in nt[:3]],
    })
    return rep.finish()
