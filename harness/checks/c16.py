"""C16 - iteration and the region-concealing view enumerate exactly the graph
(Props!IterOK / ViewOK evaluated by TLC on list(scfg) and every level's concealed view, after every stage - and on graphs
edited after restructuring: one-step edit histories enumerated by TLC (Edit.tla) and replayed on real objects, EditViews.tla)."""
from __future__ import annotations

import json
import multiprocessing as mp
import os
import re
from typing import Any, Dict, List

from .. import edits, rb, tlc
from .stagefam import run_family

ECFG = "INIT Init\nNEXT Next\nINVARIANT Holds\nCHECK_DEADLOCK FALSE\n"


def _replay_chunk(task):
    texts, seeds = task
    from .. import hooks
    from ..project import project
    from ..unproject import unproject

    out = []
    for txt in texts:
        st = tlc.parse_state(txt)
        hist = st["hist"]
        if not hist or st["bad"]:
            continue
        seed = seeds[st["seed"] - 1]
        scfg = unproject(seed["H"], seed["root"], seed["ng"], seed.get("ord"))
        exc = ""
        for op in hist:
            exc = edits.apply_op(scfg, op)
            if exc:
                break
        if exc:
            continue            # an aborting edit is C14's business
        real = project(scfg)
        out.append({"root": seed["root"], "Hs": st["H"], "H": real["H"], "dup": real["dup"], "hook": hooks.views("edited", scfg, {}),
                    "_id": {"dom": "E", "seed": seed.get("from"), "hist": hist, "seed_state": {k: seed[k] for k in ("H", "ng", "root", "ord") if k in seed}}})
    return out


def impl_layer(rep, args, res):
    """ViewImpl.tla on the recorded stage states: transcriptions of the two iterators satisfy the contract (design) and give the very
    order the real iterators gave (conformance).  DRIFT-level."""
    live = [r for r in res if r["ncases"]]
    if not live:
        return
    results = tlc.run_shards("ViewImpl", "INIT Init\nNEXT Next\nINVARIANT NoDrift\nCHECK_DEADLOCK FALSE\n", [{"CASES": r["path"]} for r in live],
                             jobs=args.jobs, workers=1, timeout=3000, heap="3g")
    tlc.require_ok(results, "ViewImpl")
    n = 0
    kinds: Dict[str, int] = {}
    for r, tr in zip(live, results):
        n += tr.distinct
        bycase = {s["case"]: s for s in r["summary"] if s.get("build") == "ok" and s.get("case")}
        for v in tr.violations:
            st = tlc.parse_state(v["states"][0])
            for k in st["drift"]:
                kinds[k] = kinds.get(k, 0) + 1
            rep.add_drift({"iterators": sorted(st["drift"]), "id": bycase.get(st["tid"], {}).get("id"), "stage": st["sid"]})
    for k, c in sorted(kinds.items()):
        print("DRIFT: iterators: %s on %d recorded states" % (k, c))
    rep.coverage["iterator_impl_layer"] = {"module": "ViewImpl.tla", "states": n, "drift_by_kind": kinds,
                                           "what": "IterOrder / ViewOrder transcriptions: contract holds on them and they equal the recorded order of the real iterators"}
    rep.coverage["states"] = rep.coverage.get("states", 0) + n


def edited(rep, args, d, res):
    if not args.replay:
        impl_layer(rep, args, res)
    edited_generic(rep, args, d, "views", "BCR", "2", "1")


def edited_generic(rep, args, d, which, ops, maxp, maxs):
    quick = args.tier == "quick"
    if args.replay:
        with open(args.replay) as f:
            rp = json.load(f)["input"]["id"]
        if rp.get("dom") != "E":
            return
        seeds = [rp["seed_state"]]
        env = {"MAXDEPTH": str(len(rp["hist"])), "MAXP": maxp, "MAXS": maxs, "OPS": ops}
    else:
        seeds = [s for s in edits.make_seeds(args.seed, 14 if quick else 40, max_level=6) if any(r["k"] == "region" for r in s["H"].values())]
        if which == "tables":
            seeds = [s for s in seeds if any(r["k"] in ("head", "latch", "exitbranch", "branch") for r in s["H"].values())][: (3 if quick else 12)] + edits.handmade_seeds()
        env = {"MAXDEPTH": "1", "MAXP": maxp, "MAXS": maxs, "OPS": ops}
    sp, rk, dump = os.path.join(d, "ev-seeds.json"), os.path.join(d, "ev-rank.json"), os.path.join(d, "ev.dump")
    with open(sp, "w") as f:
        json.dump([{k: s[k] for k in ("H", "ng", "root")} for s in seeds], f)
    with open(rk, "w") as f:
        json.dump(edits.rank_table(seeds), f)
    e = dict(env)
    e.update({"SEEDS": sp, "RANK": rk})
    r = tlc.run("Edit", "INIT Init\nNEXT Next\nCHECK_DEADLOCK FALSE\n", e, workers=args.jobs, extra=["-dump", dump], heap="6g", timeout=3000, cont=False, tag="edit-views")
    if r.error:
        raise tlc.MachineryError("Edit MC (views): %s" % r.error[:2000])
    with open(dump) as f:
        states = re.split(r"(?m)^State \d+:\n", f.read())[1:]
    os.remove(dump)
    k = args.jobs * 4
    ctx = mp.get_context("fork")
    with ctx.Pool(args.jobs) as pool:
        cases = [c for ch in pool.map(_replay_chunk, [(states[i::k], seeds) for i in range(k)]) for c in ch]
    if args.replay:
        cases = [c for c in cases if c["_id"]["hist"] == rp["hist"]]
    nsh = max(1, min(args.jobs, len(cases)))
    envs = []
    for i in range(nsh):
        p = os.path.join(d, "ev-%02d.json" % i)
        with open(p, "w") as f:
            json.dump([{x: c[x] for x in ("root", "Hs", "H", "dup", "hook")} for c in cases[i::nsh]], f, separators=(",", ":"))
        envs.append({"CASES": p, "WHICH": which})
    results = tlc.run_shards("EditViews", ECFG + "INVARIANT Applicable\n", envs, jobs=args.jobs, workers=1, timeout=3000, heap="3g")
    tlc.require_ok(results, "EditViews")
    napp = 0
    for i, tr in enumerate(results):
        if tr.distinct != len(cases[i::nsh]):
            raise tlc.MachineryError("EditViews evaluated %d of %d cases" % (tr.distinct, len(cases[i::nsh])))
        na = 0
        for v in tr.violations:
            st = tlc.parse_state(v["states"][0])
            if v["inv"] == "Applicable":
                na += 1
                continue
            c = cases[i::nsh][st["tid"] - 1]
            for clause in st["bad"]:
                if clause.startswith("MACHINERY"):
                    raise tlc.MachineryError("EditViews: " + clause)
                rep.violation(clause, {"id": c["_id"], "stage": "edited"}, detail={"failed": sorted(st["bad"])})
        napp += tr.distinct - na
    if not args.replay and napp < 50:
        raise tlc.MachineryError("vacuous run: only %d edited graphs on which the view contract applies" % napp)
    rep.coverage["edited_graphs" if which == "views" else "edited_graphs_" + which] = {"module": "Edit.tla (enumeration) + EditViews.tla (contract)", "seed_states": len(seeds), "histories_enumerated_by_tlc": r.distinct,
                                     "replayed_on_real_objects": len(cases), "contract_applies": napp,
                                     "what": "edit primitives (%s) with every level, ordered P (<=%s), S (<=%s) applied to restructured / hand-made seed graphs; "
                                             "observations recorded from the real result" % (ops, maxp, maxs)}
    rep.coverage["states"] = rep.coverage.get("states", 0) + r.distinct + sum(t.distinct for t in results)


def main(argv):
    return run_family(
        "C16", "C16", argv, "XRBSNM",
        nontrivial=lambda s: s["nblocks"] > s["n"] + 1,
        rule="after every stage of every behaviour: list(scfg) and list(concealed_region_view) of the root and of every sub-region at every depth, "
             "checked by TLC against the contract (permutation, head first, each item after a predecessor); non-trivial = the hierarchy has at least one region; "
             "in addition the same on graphs edited after restructuring (coverage.edited_graphs)",
        level_text="", hook="harness.hooks:views", extra=edited,
    )
