"""C16 - iteration and the region-concealing view enumerate exactly the graph
(Props!IterOK / ViewOK evaluated by TLC on list(scfg) and every level's concealed view, after every stage)."""
from .stagefam import run_family


def main(argv):
    return run_family(
        "C16", "C16", argv, "XRBSN",
        nontrivial=lambda s: s["nblocks"] > s["n"] + 1,
        rule="after every stage of every behaviour: list(scfg) and list(concealed_region_view) of the root and of every sub-region at every depth, "
             "checked by TLC against the contract (permutation, head first, each item after a predecessor); non-trivial = the hierarchy has at least one region",
        level_text="", hook="harness.hooks:views",
    )
