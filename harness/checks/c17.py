"""C17 - rendering never fails and draws exactly the graph (Props!DrawingOK evaluated by TLC on the parsed DOT source of
SCFGRenderer - and ByteFlowRenderer for bytecode graphs - after every stage of every behaviour)."""
from .stagefam import run_family


def main(argv):
    return run_family(
        "C17", "C17", argv, "XRBSM",
        nontrivial=lambda s: s["nblocks"] > s["n"] + 1,
        rule="after every stage of every behaviour the generated DOT source is parsed (harness/dot.py) into nodes, cluster tree, solid/dashed edges and "
             "label facts, and TLC checks them against the hierarchy (nodes = non-region blocks, clusters = region tree, edges resolved to innermost "
             "headers, labels show name / variable / table / assignments / instruction list); non-trivial = the drawing has nested clusters",
        level_text="", hook="harness.hooks:render",
    )
