"""C18 - generated names are fresh.

E1: TLC model-checks the generator state machine (Names.tla: requests of every flavour and kind interleaved with
insertions, removals and reloads, from every small input including names inside the generator's namespace) for Fresh,
NoClobber and the inductive invariant Covered.
E2: every name the real generator hands out inside real restructure behaviours is validated by TLC (NamesTrace.tla)
against Fresh / NoClobber / Overwrites - plain runs, runs where the graph is written out and read back between stages,
and runs on inputs whose block names lie in the generator's namespace."""
from __future__ import annotations

import json
import os
import random

from .. import domains, rb, tlc
from ..common import Report, parse_args

PROP = "C18"
TRACE_CFG = "INIT Init\nNEXT Next\nINVARIANT Holds\nALIAS Small\nCHECK_DEADLOCK FALSE\n"

NAMES_CFG = """CONSTANTS
  Kinds = {%s}
  Flavours = {%s}
  MaxIdx = %d
  Observing = TRUE
SPECIFICATION Spec
INVARIANT TypeOK
INVARIANT Covered
PROPERTY Fresh
PROPERTY NoClobber
CHECK_DEADLOCK FALSE
"""

POOL = ["synth_asign_block_0", "synth_asign_block_1", "synth_asign_block_2", "loop_region_0", "synth_exit_latch_block_0", "synth_head_block_0",
        "synth_exit_block_0", "synth_tail_block_0", "head_region_0", "branch_region_0", "tail_region_0", "synth_fill_block_0", "synth_return_block_0",
        "synth_asign_block_3", "loop_region_1", "branch_region_1", "ir_block_0", "ir_block_1", "ir_block_2"]


def namespace_inputs(seed: int, count: int):
    """Closed CFGs whose block names are taken from the generator's own namespace."""
    rng = random.Random(seed * 13 + 7)
    graphs = [g for n in (3, 4) for g in domains.closed_cfgs(n)] + rb.closed5_canon()
    out = []
    for g in rng.sample(graphs, min(count, len(graphs))):
        names = ["0"] + rng.sample(POOL, len(g) - 1)   # the entry keeps a plain name
        # mix: some nodes keep plain names
        for i in range(1, len(g)):
            if rng.random() < 0.4:
                names[i] = str(i)
        named = {names[u]: [names[v] for v in g[u]] for u in range(len(g))}
        out.append({"dom": "N", "named": named, "reload": False})
    return out


def main(argv):
    args = parse_args(PROP, argv)
    rep = Report(PROP, args.tier, args.seed, "model_checking")
    quick = args.tier == "quick"
    d = rb.workdir(PROP)
    states = gen = 0
    samples = []
    try:
        if not args.replay:
            cfg = NAMES_CFG % ('"synth_asign", "loop"', '"block", "var"' if quick else '"block", "region", "var"', 2)
            r = tlc.run("Names", cfg, {}, workers=args.jobs, timeout=3000, heap="6g", cont=False, tag="names")
            if r.error:
                raise tlc.MachineryError("Names MC: " + r.error[:2000])
            for v in r.violations:
                rep.violation("design/" + v["inv"], {"model": "Names.tla"}, detail={"trace": v["states"][-3:]})
            states += r.distinct
            gen += r.generated
            samples.append({"run": "Names.tla model checking", "states": r.distinct, "depth": r.depth})
        if not args.replay and not quick:
            # thorough-tier extra: Apalache discharges the inductive invariant (Init => IndInv, IndInv /\ Next => IndInv', IndInv => Safe)
            import shutil
            import subprocess

            apa = shutil.which("apalache-mc")
            obligations = [("Init=>IndInv", ["--init=Init", "--inv=IndInv", "--length=0"]),
                           ("IndInv/\\Next=>IndInv'", ["--init=IndInit", "--inv=IndInv", "--length=1"]),
                           ("IndInv=>Safe", ["--init=IndInit", "--inv=Safe", "--length=0"])]
            done = 0
            if apa:
                for name, opts in obligations:
                    r_ = subprocess.run([apa, "check"] + opts + ["--out-dir=" + os.path.join(d, "apa"), "NamesApa.tla"], cwd=os.path.join(tlc.SPEC, "apalache"),
                                        capture_output=True, text=True, timeout=1800)
                    if "EXITCODE: OK" in r_.stdout:
                        done += 1
                    elif "EXITCODE: ERROR (12)" in r_.stdout:
                        rep.violation("design/inductive-invariant/" + name, {"model": "spec/apalache/NamesApa.tla"}, detail={"apalache": r_.stdout[-600:]})
                    else:
                        raise tlc.MachineryError("apalache failed on %s: %s" % (name, (r_.stdout + r_.stderr)[-800:]))
            samples.append({"run": "Apalache inductive invariant (NamesApa.tla)", "obligations": len(obligations), "discharged": done, "available": bool(apa)})
        runs = []
        if args.replay:
            with open(args.replay) as f:
                rp = json.load(f)["input"]
            rep.replay_only = args.replay
            runs.append((rp["mode"], [rp["id"]]))
        else:
            base = rb.domain_inputs(args.tier, args.seed, "XRB", scale=0.35 if quick else 0.6)
            runs.append(("plain", base))
            runs.append(("reload", rb.domain_inputs(args.tier, args.seed + 1, "XR", scale=0.2 if quick else 0.4)))
            runs.append(("namespace", namespace_inputs(args.seed, 250 if quick else 1500)))
            # a client asks for a name of every kind (front-end block kinds included) before the pipeline and after every stage
            runs.append(("probe", [dict(x, probe_names=True) for x in rb.domain_inputs(args.tier, args.seed + 3, "XB", scale=0.15 if quick else 0.3)]))
            runs.append(("probe-namespace", [dict(x, probe_names=True) for x in namespace_inputs(args.seed + 9, 150 if quick else 800)]))
            # the same kind of input, built around a generator that has already served another graph
            runs.append(("used-generator", [dict(x, usedgen=True) for x in namespace_inputs(args.seed + 5, 150 if quick else 800)]))
        nbeh = nev = 0
        nontriv = 0
        for mode, inputs in runs:
            res = rb.record_domain(inputs, os.path.join(d, mode), jobs=args.jobs, shards=args.jobs, stages=False, events=True, names=True,
                                   reload=(mode == "reload"))
            live = [r_ for r_ in res if r_["ncases"]]
            results = tlc.run_shards("NamesTrace", TRACE_CFG, [{"CASES": r_["path"]} for r_ in live], jobs=args.jobs, workers=1, timeout=3000, heap="3g")
            tlc.require_ok(results, "NamesTrace")
            for r_, tr in zip(live, results):
                states += tr.distinct
                gen += tr.generated
                with open(r_["path"]) as f:
                    cases = json.load(f)
                expect = sum(len(c["events"]) + 1 for c in cases)
                if tr.distinct != expect:
                    raise tlc.MachineryError("NamesTrace consumed %d states, expected %d" % (tr.distinct, expect))
                nbeh += len(cases)
                for c in cases:
                    k = sum(1 for e in c["events"] if e["op"] == "name")
                    nev += k
                    nontriv += 1 if k >= 3 else 0
                for v in tr.violations:
                    st = tlc.parse_state(v["states"][-1])
                    c = cases[st["tid"] - 1]
                    ev = c["events"][st["i"] - 1]
                    for clause in st["bad"]:
                        rep.violation(clause, {"id": c["id"], "mode": mode}, detail={"event": {k_: ev[k_] for k_ in ("op", "args", "exc")}, "event_index": st["i"]},
                                      signature={"clause": clause, "mode": mode})
            samples.append({"run": "NamesTrace/" + mode, "behaviours": sum(r_["ncases"] for r_ in res), "first_input": inputs[0]})
    finally:
        tlc.cleanup(d)
    rep.coverage.update({
        "states": states, "transitions": gen, "traces_validated_against_impl": nbeh, "evaluations": nbeh, "name_events": nev,
        "distinct_nontrivial": nontriv,
        "rule": "Names.tla: all interleavings of requests (kinds x flavours), uses, removals and reloads from every input of <=3 names incl. generator-shaped ones; "
                "NamesTrace.tla: every generator call in real restructure behaviours - plain, with to_dict/from_dict between stages, and on inputs named "
                "inside the generator namespace (also built around a generator that already served another graph); non-trivial = a behaviour with at least three name requests",
        "exhaustive": False, "samples": samples,
    })
    return rep.finish()
