"""E1 engine: Restructure.tla - TLC runs the Impl transcription of the whole pipeline from EVERY closed CFG of N nodes
and evaluates the contract layer on the result of every stage (the design-level statement of C02-C06)."""
from __future__ import annotations

import json
import os
from typing import Any, Dict, List

from .. import edits, tlc

CFG = "INIT Init\nNEXT Next\nINVARIANT Holds\nCHECK_DEADLOCK FALSE\n"


def nchoices(n: int) -> int:
    return 1 + (n - 1) + (n - 1) * (n - 2)


def run_design(ns: List[int], d: str, jobs: int) -> Dict[str, Any]:
    rank = edits.rank_table([{"H": {str(i): {"jt": []} for i in range(8)}}], kmax=60)
    rp = os.path.join(d, "design-rank.json")
    with open(rp, "w") as f:
        json.dump(rank, f)
    envs, tags = [], []
    for n in ns:
        for k in range(1, nchoices(n) + 1):
            envs.append({"N": str(n), "SHARD": str(k), "RANK": rp})
            tags.append((n, k))
    results = tlc.run_shards("Restructure", CFG, envs, jobs=jobs, workers=1, timeout=20000, heap="3g")
    tlc.require_ok(results, "Restructure (E1)")
    out: Dict[str, Any] = {"states": 0, "generated": 0, "fail": [], "graphs_by_n": {}}
    for (n, k), tr in zip(tags, results):
        out["states"] += tr.distinct
        out["generated"] += tr.generated
        out["graphs_by_n"][n] = out["graphs_by_n"].get(n, 0) + tr.distinct
        for v in tr.violations:
            st = tlc.parse_state(v["states"][0])
            out["fail"].append({"g": st["g"], "bad": sorted(st["bad"])})
    return out


EXPECT = {1: 1, 2: 1, 3: 20, 4: 954, 5: 88680}


def attach(rep: Any, prop: str, tier: str, d: str, jobs: int) -> None:
    """Run E1 and attach the result for `prop` to the report (design-level failures are reported, never as VIOLATION:
    the verdict on the code comes from the checks on recorded behaviours over the same exhaustive domain)."""
    ns = [1, 2, 3, 4] if tier == "quick" else [1, 2, 3, 4, 5]
    out = run_design(ns, d, jobs)
    for n, cnt in out["graphs_by_n"].items():
        if cnt != EXPECT[n]:
            raise tlc.MachineryError("Restructure.tla enumerated %d closed CFGs with %d nodes, expected %d" % (cnt, n, EXPECT[n]))
    mine = [f for f in out["fail"] if any(b.startswith(prop + "/") for b in f["bad"])]
    for f in mine[:20]:
        print("DESIGN: property=%s the Impl specification violates %s on closed CFG %s" % (prop, [b for b in f["bad"] if b.startswith(prop + "/")], f["g"]))
        rep.add_drift({"design_level": True, "g": f["g"], "bad": f["bad"]})
    rep.coverage["design_model_checking"] = {"module": "Restructure.tla", "closed_cfgs_by_nodes": out["graphs_by_n"], "tlc_states": out["states"],
                                             "contract_failures_for_this_property": len(mine), "exhaustive": True}
    rep.coverage["states"] = rep.coverage.get("states", 0) + out["states"]
    rep.coverage["transitions"] = rep.coverage.get("transitions", 0) + out["generated"]


WALK_CFG = "INIT Init\nNEXT Next\nINVARIANT Lockstep\nCHECK_DEADLOCK FALSE\n"


def attach_walk(rep: Any, prop: str, tier: str, d: str, jobs: int) -> None:
    """E4 on the design: ModelDump.tla writes the hierarchies Pipeline.tla builds from EVERY closed CFG of N nodes (every stage); Walk.tla
    explores the product (both walks of C01, the dynamic clauses of C06) on them exactly as it does on states recorded from the code.
    A failure is printed as DESIGN: and counted as drift, never as VIOLATION."""
    ns = [2, 3, 4] if tier == "quick" else [2, 3, 4, 5]
    rank = edits.rank_table([{"H": {str(i): {"jt": []} for i in range(8)}}], kmax=60)
    rp = os.path.join(d, "walk-design-rank.json")
    with open(rp, "w") as f:
        json.dump(rank, f)
    envs, outs = [], []
    for n in ns:
        for k in range(2, nchoices(n) + 1):        # shard 1 = entry without successors: a closed CFG only for n = 1
            out = os.path.join(d, "model-%d-%02d.json" % (n, k))
            envs.append({"N": str(n), "SHARD": str(k), "RANK": rp, "OUT": out})
            outs.append((n, out))
    results = tlc.run_shards("ModelDump", "INIT Init\nNEXT Next\nINVARIANT AllStages\nCHECK_DEADLOCK FALSE\n", envs, jobs=jobs, workers=1, timeout=20000, heap="3g")
    tlc.require_ok(results, "ModelDump")
    incomplete = sum(1 for r in results if r.violations)
    bygraphs: Dict[int, int] = {}
    live = []
    for (n, out), r in zip(outs, results):
        with open(out) as f:
            cs = json.load(f)
        bygraphs[n] = bygraphs.get(n, 0) + len(cs)
        if cs:
            live.append((n, out, cs))
    for n, cnt in bygraphs.items():
        if cnt != EXPECT[n]:
            raise tlc.MachineryError("ModelDump enumerated %d closed CFGs with %d nodes, expected %d" % (cnt, n, EXPECT[n]))
    wres = tlc.run_shards("Walk", WALK_CFG, [{"CASES": out} for _, out, _ in live], jobs=jobs, workers=1, timeout=20000, heap="3g")
    tlc.require_ok(wres, "Walk (design)")
    states = 0
    fails = []
    for (n, out, cs), tr in zip(live, wres):
        states += tr.distinct
        if tr.distinct < 2 * sum(len(c["stages"]) for c in cs):
            raise tlc.MachineryError("Walk (design) explored fewer states than it has initial states")
        for v in tr.violations:
            st = tlc.parse_state(v["states"][-1])
            mine = ("C06" in str(st["bad"])) == (prop == "C06")
            if mine:
                fails.append({"g": cs[st["tid"] - 1]["g"], "stage": st["sid"], "mode": st["mode"], "bad": st["bad"]})
    for f_ in fails[:20]:
        print("DESIGN: property=%s the pipeline model violates the walk on closed CFG %s (stage %s, %s walk): %s" % (prop, f_["g"], f_["stage"], f_["mode"], f_["bad"]))
        rep.add_drift({"design_level": True, **f_})
    rep.coverage["design_product_exploration"] = {"modules": "ModelDump.tla (Pipeline.tla) -> Walk.tla", "closed_cfgs_by_nodes": bygraphs, "product_states": states,
                                                  "shards_where_the_model_did_not_reach_the_last_stage": incomplete, "failures_for_this_property": len(fails),
                                                  "exhaustive": True}
    rep.coverage["states"] = rep.coverage.get("states", 0) + states
