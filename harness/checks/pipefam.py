"""E3 at pipeline level: Pipeline.tla (dict order, vendored Tarjan, iter_subregions order - nothing bound from a log) run by TLC from the
recorded INPUT of every behaviour; its result after every stage must equal the state recorded from the real code, names included
(TracePipeline.tla).  A difference is DRIFT, never a verdict."""
from __future__ import annotations

import json
import os
from typing import Any, Dict, List

from .. import edits, rb, tlc

CFG = "INIT Init\nNEXT Next\nINVARIANT NoDrift\nCHECK_DEADLOCK FALSE\n"


def pipe_inputs(tier: str, seed: int) -> List[Dict[str, Any]]:
    return rb.domain_inputs(tier, seed, "XR", scale=0.25 if tier == "quick" else 1.0)


def record(inputs: List[Dict[str, Any]], outdir: str, jobs: int) -> List[Dict[str, Any]]:
    """Run the real pipeline over `inputs` (in this process's hash seed), write one {rank, cases} file per shard."""
    res = rb.record_domain(inputs, outdir, jobs=jobs, shards=jobs, stages=True, events=False)
    out = []
    for r in res:
        if not r["ncases"]:
            continue
        with open(r["path"]) as f:
            cases = json.load(f)
        names = set()
        for c in cases:
            for st in c["stages"]:
                names |= set(st["H"])
        rank = edits.rank_table([{"H": {n: {"jt": []} for n in names}}], kmax=90)
        slim = [{"root": c["root"], "stages": [{"name": st["name"], "H": st["H"], "ord": st["ord"], "ng": st["ng"]} for st in c["stages"]]} for c in cases]
        with open(r["path"], "w") as f:
            json.dump({"rank": rank, "cases": slim}, f, separators=(",", ":"))
        out.append({"path": r["path"], "ncases": r["ncases"], "ids": [c["id"] for c in cases]})
    return out


def validate(shards: List[Dict[str, Any]], jobs: int) -> Dict[str, Any]:
    results = tlc.run_shards("TracePipeline", CFG, [{"CASES": r["path"]} for r in shards], jobs=jobs, workers=1, timeout=6000, heap="3g")
    tlc.require_ok(results, "TracePipeline")
    out: Dict[str, Any] = {"states": 0, "behaviours": sum(r["ncases"] for r in shards), "drift": []}
    for r, tr in zip(shards, results):
        out["states"] += tr.distinct
        if tr.distinct != r["ncases"]:
            raise tlc.MachineryError("TracePipeline evaluated %d of %d behaviours" % (tr.distinct, r["ncases"]))
        for v in tr.violations:
            st = tlc.parse_state(v["states"][0])
            out["drift"].append({"id": r["ids"][st["tid"] - 1], "what": sorted(st["drift"])})
    return out


def run_pipeline(inputs: List[Dict[str, Any]], d: str, jobs: int) -> Dict[str, Any]:
    return validate(record(inputs, os.path.join(d, "pl"), jobs), jobs)


def run_pipeline_under_seed(inputs: List[Dict[str, Any]], d: str, jobs: int, hashseed: int) -> Dict[str, Any]:
    """The same, with the real code running in a separate interpreter under PYTHONHASHSEED=hashseed."""
    import subprocess
    import sys

    from ..common import VERIF

    od = os.path.join(d, "pl-seed%d" % hashseed)
    os.makedirs(od, exist_ok=True)
    ip = os.path.join(od, "inputs.json")
    with open(ip, "w") as f:
        json.dump(inputs, f)
    env = dict(os.environ, PYTHONHASHSEED=str(hashseed), PYTHONPATH=VERIF + os.pathsep + os.environ.get("VERIF_REPO", "/repo"))
    r = subprocess.run([sys.executable, "-m", "harness.pipe_record", ip, od, str(jobs)], env=env, cwd=VERIF, capture_output=True, text=True, timeout=6000)
    if r.returncode != 0:
        raise tlc.MachineryError("pipe_record failed (seed %s): %s" % (hashseed, r.stderr[-2000:]))
    with open(os.path.join(od, "shards.json")) as f:
        return validate(json.load(f), jobs)


def attach(rep: Any, tier: str, seed: int, d: str, jobs: int) -> None:
    out = run_pipeline(pipe_inputs(tier, seed), d, jobs)
    for x in out["drift"][:10]:
        print("DRIFT: pipeline model and code disagree on %s: %s" % (x["id"], x["what"]))
        rep.add_drift({"pipeline_level": True, **x})
    rep.coverage["pipeline_conformance"] = {"module": "Pipeline.tla / TracePipeline.tla", "behaviours": out["behaviours"], "drift": len(out["drift"]),
                                            "what": "result of every stage computed by TLC from the input alone (dict order, Tarjan emission order, iter_subregions order "
                                                    "modelled) equals the recorded state: block records, per-level dict order, generator counters"}
