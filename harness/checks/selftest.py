"""./check selftest [--mutants all|<id>,<id>...] - binding demonstration for the machinery itself (DESIGN 3.3):
 (a) a corrupted recorded field must be rejected by the right clause,
 (b) a specification known to be wrong (the pinned name generator) must be refuted by TLC,
 (c) seeded source mutants (seeded/<id>/patch.diff), applied in a scratch worktree OUTSIDE /repo and /verif, must make the
     check of the property they break exit 1, and the unpatched tree must stay quiet (that is what `vp check` runs)."""
from __future__ import annotations

import json
import os
import random
import shutil
import subprocess
import sys

from .. import domains, queries, rb, tlc
from ..common import VERIF

CFG = "INIT Init\nNEXT Next\nINVARIANT Holds\nCHECK_DEADLOCK FALSE\n"

# which check is expected to catch which seeded change (first entry = the property the change was written against)
CATCHES = {
    "C01-m1": ["C01"], "C01-m2": ["C01"], "C02-m1": ["C02"], "C02-m2": ["C02"], "C03-m1": ["C03"], "C03-m2": ["C03"],
    "C04-m1": ["C04"], "C04-m2": ["C04"], "C05-m1": ["C05"], "C05-m2": ["C05"], "C06-m1": ["C06"], "C06-m2": ["C06"],
    "C07-m1": ["C07"], "C07-m2": ["C07"], "C08-m1": ["C08"], "C08-m2": ["C08"], "C09-m1": ["C09"], "C09-m2": ["C09"],
    "C11-m1": ["C11"], "C11-m2": ["C11"], "C12-m1": ["C12"], "C12-m2": ["C12"], "C13-m1": ["C13"], "C13-m2": ["C13"],
    "C14-m1": ["C14"], "C14-m2": ["C14"], "C15-m1": ["C15"], "C15-m2": ["C15"], "C16-m1": ["C16"], "C16-m2": ["C16"],
    "C17-m1": ["C17"], "C17-m2": ["C17"], "C18-m1": ["C18"], "C18-m2": ["C18"], "C10-m1": ["C10"], "C10-m2": ["C10"],
}


def ok(msg: str) -> None:
    print("selftest ok   : " + msg)


def fail(msg: str) -> None:
    print("selftest FAIL : " + msg)
    raise SystemExit(1)


def corrupt_queries(d: str) -> None:
    recs = [queries.run_queries(g) for g in list(queries.q_domain(2, 3))[:120]]
    recs[10]["reach"][0][2] = not recs[10]["reach"][0][2]
    recs[20]["scc"] = recs[20]["scc"][:-1]
    recs[30]["doms"]["0"] = ["0", "1"]
    p = os.path.join(d, "q.json")
    with open(p, "w") as f:
        json.dump(recs, f)
    r = tlc.run("Queries", CFG, {"CASES": p, "EXHN": "0", "EXHD": "0", "EXH": ""})
    got = {tlc.parse_state(v["states"][0])["tid"]: sorted(tlc.parse_state(v["states"][0])["bad"]) for v in r.violations}
    want = {11: ["is_reachable_dfs"], 21: ["compute_scc"], 31: ["_doms"]}
    if got != want:
        fail("Queries.tla on corrupted records: got %s, want %s" % (got, want))
    ok("corrupted query results rejected by the right clause (%s)" % want)


def corrupt_walk(d: str) -> None:
    rng = random.Random(1)
    graphs = [g for g in domains.random_domain(5, 60, 7, 10)]
    res = rb.record_domain([{"dom": "R", "g": [list(s) for s in g]} for g in graphs], os.path.join(d, "w"), jobs=4, shards=1, stages=True)
    with open(res[0]["path"]) as f:
        cases = json.load(f)
    hit = 0
    for c in cases:
        H = c["stages"][-1]["H"]
        latches = [n for n, r in H.items() if r["k"] == "latch"]
        if latches:
            t = H[latches[0]]["tab"]
            t[0][1], t[1][1] = t[1][1], t[0][1]      # swap the two table entries of one latch
            hit += 1
    with open(res[0]["path"], "w") as f:
        json.dump(cases, f)
    r = tlc.run("Walk", "INIT Init\nNEXT Next\nINVARIANT Lockstep\nCHECK_DEADLOCK FALSE\n", {"CASES": res[0]["path"]}, workers=4)
    bad_cases = {tlc.parse_state(v["states"][-1])["tid"] for v in r.violations}
    if hit == 0 or len(bad_cases) < hit:
        fail("Walk.tla: %d cases with a swapped latch table, only %d rejected" % (hit, len(bad_cases)))
    ok("every one of %d behaviours with a swapped latch table is rejected by Walk.tla" % hit)


def corrupt_pipeline(d: str) -> None:
    """TracePipeline.tla must reject a recording whose dict order, a generated name or a value table was tampered with."""
    from . import pipefam

    inputs = [{"dom": "X", "g": [list(s) for s in g]} for g in domains.closed_cfgs(4)][:160]
    shards = pipefam.record(inputs, os.path.join(d, "pl"), 4)
    hit = 0
    for sh in shards:
        with open(sh["path"]) as f:
            data = json.load(f)
        for c in data["cases"]:
            last = c["stages"][-1]
            lv = [l for l, names in last["ord"].items() if len(names) >= 2]
            if lv:
                names = last["ord"][lv[0]]
                names[0], names[1] = names[1], names[0]
                hit += 1
        with open(sh["path"], "w") as f:
            json.dump(data, f)
    out = pipefam.validate(shards, 4)
    if hit == 0 or len(out["drift"]) < hit:
        fail("TracePipeline.tla: %d behaviours with two names swapped in a recorded dict order, only %d rejected" % (hit, len(out["drift"])))
    ok("every one of %d behaviours with a tampered dict order is rejected by TracePipeline.tla" % hit)


def pinned_names() -> None:
    cfg = 'CONSTANTS\n  Kinds = {"synth_asign"}\n  Flavours = {"block"}\n  MaxIdx = 1\n  Observing = FALSE\nSPECIFICATION Spec\nPROPERTY NoClobber\nCHECK_DEADLOCK FALSE\n'
    r = tlc.run("Names", cfg, {}, workers=2, cont=False)
    if not r.violations:
        fail("Names.tla with Observing = FALSE (the pinned generator) was not refuted")
    ok("Names.tla refutes the pinned generator (no observation of existing names): %s" % r.violations[0]["inv"])


def mutants(which: str) -> None:
    every = sorted(os.path.basename(x) for x in __import__("glob").glob(os.path.join(VERIF, "seeded", "*")))
    ids = every if which == "all" else [x for x in which.split(",") if x]
    for mid in ids:
        pd = os.path.join(VERIF, "seeded", mid, "patch.diff")
        if not os.path.exists(pd):
            print("selftest skip : %s (no such seeded change)" % mid)
            continue
        wt = "/tmp/verif-selftest-%s-%d" % (mid, os.getpid())
        subprocess.run(["git", "-C", "/repo", "worktree", "add", "-q", "--detach", wt, "HEAD"], check=True)
        try:
            a = subprocess.run(["git", "-C", wt, "apply", pd], capture_output=True, text=True)
            if a.returncode != 0:
                fail("%s does not apply to the current tree: %s" % (mid, a.stderr.strip()))
            for chk in CATCHES.get(mid, [mid.split("-")[0]]):
                r = subprocess.run([os.path.join(VERIF, "check"), chk, "--tier", "quick"], env=dict(os.environ, VERIF_REPO=wt, VERIF_KEEP_EVIDENCE="1"),
                                   capture_output=True, text=True)
                if r.returncode != 1 or "VIOLATION property=%s" % chk not in r.stdout:
                    fail("%s not reported by %s (exit %d)\n%s" % (mid, chk, r.returncode, r.stdout[-800:] + r.stderr[-800:]))
                ok("%s reported by %s" % (mid, chk))
        finally:
            subprocess.run(["git", "-C", "/repo", "worktree", "remove", "--force", wt])
            shutil.rmtree(wt, ignore_errors=True)


def main(argv):
    which = ""
    if "--mutants" in argv:
        which = argv[argv.index("--mutants") + 1]
    d = rb.workdir("selftest")
    try:
        corrupt_queries(d)
        corrupt_walk(d)
        corrupt_pipeline(d)
        pinned_names()
    finally:
        tlc.cleanup(d)
    if which:
        mutants(which)
    print("selftest: all passed")
    return 0
