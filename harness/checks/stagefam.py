"""Shared engine for the properties decided by evaluating Props predicates on
every recorded stage state (E2-(i)): C03, C04, C05 and the static part of C06."""
from __future__ import annotations

import json
from typing import Any, Dict, List, Optional

from .. import rb, tlc
from ..common import Report, parse_args

CFG = "INIT Init\nNEXT Next\nINVARIANT Holds\nCHECK_DEADLOCK FALSE\n"


def run_family(prop: str, which: str, argv: List[str], doms: str, nontrivial, rule: str, level_text: str, hook: Optional[str] = None, extra=None) -> int:
    args = parse_args(prop, argv)
    rep = Report(prop, args.tier, args.seed, "model_checking")
    if args.replay:
        with open(args.replay) as f:
            rp = json.load(f)
        inputs = [rp["input"]["id"]] if rp["input"]["id"].get("dom") != "E" else []
        rep.replay_only = args.replay
    else:
        inputs = rb.domain_inputs(args.tier, args.seed, doms)
    d = rb.workdir(prop)
    try:
        res = []
        if inputs:
            res = rb.record_domain(inputs, d, jobs=args.jobs, shards=args.jobs, stages=True, hook=hook)
            verdicts = evaluate(res, which, args.jobs)
            account(rep, res, verdicts, nontrivial, rule, inputs)
        if extra is not None:
            extra(rep, args, d, res)
        if prop in ("C03", "C05") and not args.replay:
            from . import designfam

            designfam.attach(rep, prop, args.tier, d, args.jobs)
    finally:
        tlc.cleanup(d)
    rep.assumptions += [
        "TLC and the CommunityModules Json reader",
        "harness projection (harness/project.py) faithfully flattens the live objects",
        "front-end graphs are used only when they pass the closed-CFG domain test (DESIGN section 9)",
    ]
    return rep.finish()


def evaluate(res: List[Dict[str, Any]], which: str, jobs: int) -> Dict[str, Any]:
    live = [r for r in res if r["ncases"]]
    # hierarchies diverted as "heavy" (rb.record_domain(heavy=N)) live in their own files
    for r in res:
        if r.get("heavy_path"):
            live.append({"path": r["heavy_path"], "shard": r["shard"], "ncases": 1,
                         "summary": [dict(s, case=s["heavy"]) for s in r["summary"] if s.get("heavy")]})
    envs = [{"CASES": r["path"], "WHICH": which} for r in live]
    results = tlc.run_shards("StageCheck", CFG, envs, jobs=jobs, workers=1, timeout=3000)
    tlc.require_ok(results, "StageCheck " + which)
    out = {"states": 0, "generated": 0, "viol": []}
    for r, tr in zip(live, results):
        out["states"] += tr.distinct
        out["generated"] += tr.generated
        expect = sum(len_stages(s) for s in r["summary"] if s.get("build") == "ok" and s.get("case"))
        if tr.distinct != expect:
            raise tlc.MachineryError("StageCheck evaluated %d states, expected %d (shard %d)" % (tr.distinct, expect, r["shard"]))
        bycase = {s["case"]: s for s in r["summary"] if s.get("build") == "ok" and s.get("case")}
        for v in tr.violations:
            st = tlc.parse_state(v["states"][0])
            s = bycase[st["tid"]]
            out["viol"].append({"id": s["id"], "sid": st["sid"], "bad": sorted(st["bad"])})
    return out


STAGE_ORDER = ["input", "closed", "loops", "branches"]


def len_stages(s: Dict[str, Any]) -> int:
    return STAGE_ORDER.index(s["reached"]) + 1


def account(rep: Report, res, verdicts, nontrivial, rule: str, inputs) -> None:
    summ = [s for r in res for s in r["summary"]]
    ok = [s for s in summ if s.get("build") == "ok"]
    if rep.prop == "C03":
        # "After restructuring ... the blocks and regions form ...": an input of the domain on which restructuring does not complete
        # has no structured result at all (the abort itself is C02's verdict; here it means the postcondition was not established)
        for s_ in ok:
            if s_.get("exc"):
                rep.violation("NoStructuredResult", {"id": s_["id"], "stage": s_.get("reached", "")}, detail={"exc": s_["exc"]})
    for v in verdicts["viol"]:
        stage = STAGE_ORDER[v["sid"] - 1]
        for clause in v["bad"]:
            rep.violation(clause, {"id": v["id"], "stage": stage}, detail={"failed": v["bad"]})
    nt = [s for s in ok if nontrivial(s)]
    bydom: Dict[str, int] = {}
    for s in ok:
        bydom[s["id"]["dom"]] = bydom.get(s["id"]["dom"], 0) + 1
    excluded: Dict[str, int] = {}
    for s in summ:
        if s.get("build") != "ok":
            k = "%s/%s" % (s["id"]["dom"], s["build"])
            excluded[k] = excluded.get(k, 0) + 1
    rep.coverage.update({
        "states": verdicts["states"],
        "transitions": verdicts["generated"],
        "traces_validated_against_impl": len(ok),
        "evaluations": len(inputs),
        "distinct_nontrivial": len({json.dumps(s["id"], sort_keys=True) for s in nt}),
        "rule": rule,
        "inputs_by_domain": bydom,
        "excluded_inputs": excluded,
        "excluded_samples": [s for s in summ if s.get("build") != "ok"][:5],
        "aborted_behaviours": sum(1 for s in ok if s["exc"]),
        "exhaustive": False,
        "samples": [s["id"] for s in nt[:3]] + [s["id"] for s in nt[-2:]],
    })
    if len(ok) and not nt and not rep.violations:
        raise tlc.MachineryError("vacuous run: no non-trivial input")
