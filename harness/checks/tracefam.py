"""E2 engine for the pipeline: TraceRestructure.tla over recorded behaviours - contract clauses after every primitive
(C04, C06) and conformance of every primitive with the Impl transcription (DRIFT accounting)."""
from __future__ import annotations

import json
import os
from typing import Any, Dict, List

from .. import edits, rb, tlc

CFG = "INIT Init\nNEXT Next\nINVARIANT Holds\nINVARIANT NoDrift\nALIAS Small\nCHECK_DEADLOCK FALSE\n"


def trace_inputs(tier: str, seed: int) -> List[Dict[str, Any]]:
    return rb.domain_inputs(tier, seed, "XRBS", scale=0.25 if tier == "quick" else 0.5)


def run_traces(inputs: List[Dict[str, Any]], which: str, d: str, jobs: int) -> Dict[str, Any]:
    res = rb.record_domain(inputs, os.path.join(d, "tr"), jobs=jobs, shards=jobs, stages=False, events=True)
    live = [r for r in res if r["ncases"]]
    nevents = 0
    for r in live:
        with open(r["path"]) as f:
            cases = json.load(f)
        names = set()
        for c in cases:
            names |= set(c["init"])
            for ev in c["events"]:
                names |= set(ev["put"])
                for rec in ev["put"].values():
                    names |= set(rec["jt"])
            nevents += len(c["events"])
        rank = edits.rank_table([{"H": {n: {"jt": []} for n in names}}], kmax=90)
        for c in cases:
            c.pop("origk", None)
            c.pop("origpay", None)
        with open(r["path"], "w") as f:
            json.dump({"rank": rank, "cases": cases}, f, separators=(",", ":"))
        r["_events"] = [len(c["events"]) for c in cases]
        r["_ids"] = [c["id"] for c in cases]
    results = tlc.run_shards("TraceRestructure", CFG, [{"CASES": r["path"], "WHICH": which} for r in live], jobs=jobs, workers=1, timeout=3000, heap="3g")
    tlc.require_ok(results, "TraceRestructure")
    out: Dict[str, Any] = {"states": 0, "generated": 0, "viol": [], "drift": [], "behaviours": sum(r["ncases"] for r in live), "events": nevents, "res": res}
    for r, tr in zip(live, results):
        out["states"] += tr.distinct
        out["generated"] += tr.generated
        expect = sum(n + 1 for n in r["_events"])
        if tr.distinct != expect:
            raise tlc.MachineryError("TraceRestructure consumed %d states, expected %d" % (tr.distinct, expect))
        for v in tr.violations:
            st = tlc.parse_state(v["states"][-1])
            ident = r["_ids"][st["tid"] - 1]
            if v["inv"] == "NoDrift":
                out["drift"].append({"id": ident, "event": st["i"], "ops": sorted(st["drift"])})
            else:
                out["viol"].append({"id": ident, "event": st["i"], "bad": sorted(st["bad"])})
    return out
