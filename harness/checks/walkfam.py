"""E4 engine shared by C01 and C06 (dynamic part): native TLC exploration of
Walk.tla over every recorded (behaviour, stage) in both walk modes."""
from __future__ import annotations

import json
from typing import Any, Dict, List

from .. import rb, tlc
from ..common import Report, parse_args
from .stagefam import STAGE_ORDER, len_stages

CFG = "INIT Init\nNEXT Next\nINVARIANT Lockstep\nCHECK_DEADLOCK FALSE\n"


def explore(res: List[Dict[str, Any]], jobs: int, workers: int = 1) -> Dict[str, Any]:
    live = [r for r in res if r["ncases"]]
    envs = [{"CASES": r["path"]} for r in live]
    results = tlc.run_shards("Walk", CFG, envs, jobs=jobs, workers=workers, timeout=3000)
    tlc.require_ok(results, "Walk")
    out = {"states": 0, "generated": 0, "viol": [], "depth": 0}
    # large hierarchies: one file per shard, explored one after the other with many TLC workers
    for r in res:
        if r.get("heavy_path"):
            tr = tlc.run("Walk", CFG, {"CASES": r["heavy_path"]}, workers=jobs, timeout=3000, heap="4g", tag="walk-heavy")
            tlc.require_ok([tr], "Walk (heavy)")
            live.append({"summary": [dict(s, case=s["heavy"]) for s in r["summary"] if s.get("heavy")], "shard": r["shard"]})
            results.append(tr)
    for r, tr in zip(live, results):
        out["states"] += tr.distinct
        out["generated"] += tr.generated
        out["depth"] = max(out["depth"], tr.depth)
        bycase = {s["case"]: s for s in r["summary"] if s.get("build") == "ok" and s["case"]}
        expect_init = 2 * sum(len_stages(s) for s in bycase.values())
        if tr.distinct < expect_init:
            raise tlc.MachineryError("Walk explored %d states, fewer than the %d initial states expected" % (tr.distinct, expect_init))
        for v in tr.violations:
            st = tlc.parse_state(v["states"][-1])
            s = bycase[st["tid"]]
            path = []
            for x in v["states"]:
                ps = tlc.parse_state(x)
                path.append(ps.get("o"))
            out["viol"].append({"id": s["id"], "sid": st["sid"], "mode": st["mode"], "bad": st["bad"], "path": path, "env": st.get("env")})
    return out
