"""Verdict protocol, evidence, replay files, known findings (DESIGN section 7)."""
from __future__ import annotations

import argparse
import hashlib
import json
import os
import sys
import time
from typing import Any, Callable, Dict, List, Optional

VERIF = os.path.dirname(os.path.dirname(os.path.abspath(__file__)))
EVID = os.path.join(VERIF, "evidence")
REPLAYS = os.path.join(VERIF, "replays")
KNOWN = os.path.join(VERIF, "known_findings.json")


def sha(obj: Any) -> str:
    return hashlib.sha1(json.dumps(obj, sort_keys=True, default=str).encode()).hexdigest()[:16]


def load_known(prop: str) -> List[Dict[str, Any]]:
    if not os.path.exists(KNOWN):
        return []
    with open(KNOWN) as f:
        data = json.load(f)
    return [e for e in data.get("findings", []) if e.get("property") == prop and e.get("status") == "open"]


class Report:
    """Collects violations for one property run and renders the verdict."""

    def __init__(self, prop: str, tier: str, seed: int, level: str):
        self.prop = prop
        self.tier = tier
        self.seed = seed
        self.level = level
        self.t0 = time.time()
        self.violations: List[Dict[str, Any]] = []
        self.known_hits: Dict[str, int] = {}
        self.drift: List[Dict[str, Any]] = []
        self.coverage: Dict[str, Any] = {"samples": []}
        self.assumptions: List[str] = []
        self.known = load_known(prop)
        self.replay_only: Optional[str] = None

    # a violation: clause + input (canonical, json-able) + detail
    def violation(self, clause: str, inp: Any, detail: Any = None, signature: Optional[Dict[str, Any]] = None) -> None:
        for e in self.known:
            if self._matches(e, clause, inp, signature):
                key = e.get("what", "known")
                self.known_hits[key] = self.known_hits.get(key, 0) + 1
                return
        self.violations.append({"clause": clause, "input": inp, "detail": detail, "signature": signature})

    @staticmethod
    def _matches(e: Dict[str, Any], clause: str, inp: Any, signature: Optional[Dict[str, Any]]) -> bool:
        if e.get("clause") not in (None, clause):
            return False
        m = e.get("match", {})
        if "input" in m:
            return json.dumps(m["input"], sort_keys=True) == json.dumps(inp, sort_keys=True, default=str)
        if "signature" in m:
            if signature is None:
                return False
            return all(signature.get(k) == v for k, v in m["signature"].items())
        return False

    def add_drift(self, what: Any) -> None:
        self.drift.append(what)

    def finish(self, extra_cov: Optional[Dict[str, Any]] = None) -> int:
        cov = self.coverage
        if extra_cov:
            cov.update(extra_cov)
        cov.setdefault("drift_traces", len(self.drift))
        if self.drift:
            cov["drift_samples"] = self.drift[:5]
        cov["known_findings_hit"] = self.known_hits
        # distinct violations by (clause, input)
        seen = set()
        distinct = []
        for v in self.violations:
            k = sha([v["clause"], v["input"]])
            if k not in seen:
                seen.add(k)
                distinct.append((k, v))
        rc = 0
        for what, cnt in sorted(self.known_hits.items()):
            print("KNOWN-FINDING: property=%s %s (%d cases)" % (self.prop, what, cnt))
        if self.drift:
            print("DRIFT: property=%s %d behaviours where the Impl specification and the code disagree (no contract clause false there)" % (self.prop, len(self.drift)))
        if self.replay_only is None:
            import shutil

            shutil.rmtree(os.path.join(REPLAYS, self.prop), ignore_errors=True)
        os.makedirs(os.path.join(REPLAYS, self.prop), exist_ok=True)
        shown = 0
        for k, v in distinct[:400]:
            path = os.path.join(REPLAYS, self.prop, k + ".json")
            with open(path, "w") as f:
                json.dump({"property": self.prop, "clause": v["clause"], "input": v["input"], "detail": v["detail"], "signature": v["signature"], "tier": self.tier, "seed": self.seed}, f, indent=1, default=str)
            if shown < 40:
                print("VIOLATION property=%s replay=%s clause=%s" % (self.prop, path, v["clause"]))
                shown += 1
            rc = 1
        if len(distinct) > shown:
            print("... %d more distinct violations (replay files written)" % (len(distinct) - shown))
        if self.replay_only is None and not os.environ.get("VERIF_KEEP_EVIDENCE"):
            ev = {
                "property_id": self.prop,
                "tier": self.tier,
                "seed": self.seed,
                "level": self.level,
                "coverage": cov,
                "assumptions": self.assumptions,
                "wall_s": round(time.time() - self.t0, 2),
                "violations": len(distinct),
            }
            os.makedirs(EVID, exist_ok=True)
            with open(os.path.join(EVID, self.prop + ".json"), "w") as f:
                json.dump(ev, f, indent=1, default=str)
        print("%s: %s (%d distinct violations, %d known-finding hits, %.1fs)" % (self.prop, "FAIL" if rc else "ok", len(distinct), sum(self.known_hits.values()), time.time() - self.t0))
        return rc


def parse_args(prop: str, argv: List[str]) -> argparse.Namespace:
    ap = argparse.ArgumentParser(prog="check " + prop)
    ap.add_argument("--tier", default=os.environ.get("VERIF_TIER", "quick"), choices=["quick", "thorough"])
    ap.add_argument("--seed", type=int, default=int(os.environ.get("VERIF_SEED", "0") or 0))
    ap.add_argument("--replay", default=None)
    ap.add_argument("--jobs", type=int, default=int(os.environ.get("VERIF_JOBS", "16")))
    return ap.parse_args(argv)


def main_wrapper(fn: Callable[[], int]) -> None:
    from .tlc import MachineryError

    try:
        rc = fn()
    except MachineryError as e:
        print("MACHINERY-ERROR: %s" % e, file=sys.stderr)
        sys.exit(2)
    except Exception:
        import traceback

        traceback.print_exc()
        print("MACHINERY-ERROR: unexpected exception in the harness", file=sys.stderr)
        sys.exit(2)
    sys.exit(rc)
