"""Domain B: real functions from the standard library (and the repository's own
test functions) whose bytecode has no exception table, raise or generator flag."""
from __future__ import annotations

import dis
import importlib
import inspect
import types
from typing import Any, Callable, Dict, Iterator, List, Tuple

MODULES = [
    "abc", "argparse", "ast", "base64", "bisect", "calendar", "cmd", "code", "codecs", "collections",
    "colorsys", "compileall", "configparser", "contextlib", "copy", "csv", "dataclasses", "datetime",
    "decimal", "difflib", "dis", "enum", "filecmp", "fileinput", "fnmatch", "fractions", "ftplib",
    "functools", "genericpath", "getopt", "gettext", "glob", "gzip", "hashlib", "heapq", "hmac",
    "html.parser", "http.client", "http.cookies", "imaplib", "inspect", "ipaddress", "json.decoder",
    "json.encoder", "keyword", "linecache", "locale", "logging", "mailbox", "mimetypes", "netrc",
    "ntpath", "nturl2path", "numbers", "opcode", "operator", "optparse", "pathlib", "pickle",
    "pickletools", "pkgutil", "platform", "plistlib", "poplib", "posixpath", "pprint", "profile",
    "pstats", "queue", "quopri", "random", "reprlib", "rlcompleter", "sched", "shlex", "shutil",
    "smtplib", "socketserver", "sre_parse", "stat", "statistics", "string", "stringprep", "struct",
    "subprocess", "symtable", "tabnanny", "tarfile", "textwrap", "threading", "timeit", "token",
    "tokenize", "trace", "traceback", "types", "typing", "urllib.parse", "uuid", "warnings", "wave",
    "weakref", "zipfile", "harness.synthfuncs",
]

BAD_OPS = {"RAISE_VARARGS", "RERAISE", "YIELD_VALUE", "RETURN_GENERATOR", "SETUP_FINALLY", "SETUP_WITH",
           "PUSH_EXC_INFO", "POP_EXCEPT", "CHECK_EXC_MATCH", "BEFORE_WITH", "CLEANUP_THROW", "SEND"}
GEN_FLAGS = inspect.CO_GENERATOR | inspect.CO_COROUTINE | inspect.CO_ASYNC_GENERATOR


def eligible(fn: Any) -> bool:
    code = fn if isinstance(fn, types.CodeType) else getattr(fn, "__code__", None)
    if code is None:
        return False
    if code.co_flags & GEN_FLAGS:
        return False
    if getattr(code, "co_exceptiontable", b""):
        return False
    try:
        for ins in dis.get_instructions(code):
            if ins.opname in BAD_OPS:
                return False
    except Exception:
        return False
    return True


def functions_of(modname: str) -> Iterator[Tuple[str, Callable[..., Any]]]:
    try:
        mod = importlib.import_module(modname)
    except Exception:
        return
    seen = set()

    def emit(qual: str, f: Any) -> Iterator[Tuple[str, Callable[..., Any]]]:
        f = inspect.unwrap(f) if callable(f) else f
        if isinstance(f, (staticmethod, classmethod)):
            f = f.__func__
        if isinstance(f, types.FunctionType) and f.__module__ == modname and id(f.__code__) not in seen:
            seen.add(id(f.__code__))
            yield "%s:%s" % (modname, qual), f

    for name in sorted(vars(mod)):
        obj = vars(mod)[name]
        if isinstance(obj, types.FunctionType):
            yield from emit(name, obj)
        elif isinstance(obj, type) and obj.__module__ == modname:
            for an in sorted(vars(obj)):
                a = vars(obj)[an]
                if isinstance(a, property):
                    for pn, pf in (("fget", a.fget), ("fset", a.fset)):
                        if pf is not None:
                            yield from emit("%s.%s.%s" % (name, an, pn), pf)
                else:
                    yield from emit("%s.%s" % (name, an), a)


def nested_code(ident: str, code: types.CodeType) -> Iterator[Tuple[str, Any]]:
    """Code objects of lambdas, nested definitions and comprehensions inside a function: functions in their own right."""
    for k in code.co_consts:
        if isinstance(k, types.CodeType):
            sub = "%s#%s@%d" % (ident, k.co_name, k.co_firstlineno)
            yield sub, k
            yield from nested_code(sub, k)


def with_nested(modname: str) -> Iterator[Tuple[str, Any]]:
    for ident, f in functions_of(modname):
        yield ident, f
        yield from nested_code(ident, f.__code__)


def corpus(limit: int | None = None, stride: int = 1, offset: int = 0) -> List[Tuple[str, Callable[..., Any]]]:
    out: List[Tuple[str, Callable[..., Any]]] = []
    i = 0
    for m in MODULES:
        for ident, f in with_nested(m):
            if not eligible(f):
                continue
            if i % stride == offset % stride:
                out.append((ident, f))
                if limit is not None and len(out) >= limit:
                    return out
            i += 1
    return out


def resolve(ident: str) -> Callable[..., Any]:
    modname, qual = ident.split(":", 1)
    for i, f in with_nested(modname):
        if i == ident:
            return f
    raise KeyError(ident)
