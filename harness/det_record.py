"""C12 recorder: run in a separate process per PYTHONHASHSEED; writes, per input, the sequence of events as canonical
strings that are sensitive to names, target order, value tables and dictionary insertion order."""
from __future__ import annotations

import json
import os
import sys

HERE = os.path.dirname(os.path.dirname(os.path.abspath(__file__)))
sys.path.insert(0, HERE)
sys.path.insert(0, os.environ.get("VERIF_REPO", "/repo"))


def ordered(x):
    """dict -> list of [key, value] pairs in insertion order (so that order survives JSON and TLC)."""
    if isinstance(x, dict):
        return [[str(k), ordered(v)] for k, v in x.items()]
    if isinstance(x, (list, tuple)):
        return [ordered(v) for v in x]
    return x


def main() -> None:
    inp_path, out_path = sys.argv[1], sys.argv[2]
    sys.setrecursionlimit(10000)
    from harness import rb
    from harness.project import PayloadIds, project
    from harness.record import record_restructure

    with open(inp_path) as f:
        inputs = json.load(f)
    again = os.environ.get("VERIF_DET_AGAIN") == "1"
    out = []
    for inp in inputs:
        events = []
        try:
            pids = PayloadIds()
            scfg = rb.build(inp, pids)
            if again and inp["dom"] in ("X", "X5", "R", "K") and not inp.get("via_subgraphs"):
                # "the same input graph": a second graph made of the SAME block objects, restructured in the SAME process after the
                # first one has been (the first run must not leave anything behind - in the blocks it was given or anywhere else)
                from numba_scfg.core.datastructures.scfg import SCFG as _SCFG

                blocks0 = dict(scfg.graph)
                try:
                    scfg.restructure()
                except Exception:
                    pass
                scfg = _SCFG(graph=dict(blocks0))
            st0 = project(scfg)
            events.append(json.dumps(["built", ordered(st0["H"]), ordered(st0["ord"]), ordered(st0["ng"])]))
            if inp["dom"] == "S":
                import ast as _ast

                # the graph built from source also means the CONTENT of its blocks: statement texts, in block order
                events.append(json.dumps(["built-text", [[str(n), [_ast.unparse(x) for x in b.tree]] for n, b in scfg.graph.items()]]))
            if rb.named_closed(st0["H"]):
                beh = record_restructure(scfg, inp, None, primitives=True, names=True)
                for ev in beh["events"]:
                    events.append(json.dumps([ev["op"], ev["ph"], ev["lvl"], ordered(ev["args"]), ordered(ev["put"]), ev["del"], ordered(ev["ng"]), ev["exc"]]))
                for nm, st in beh["stages"].items():
                    events.append(json.dumps(["state", nm, ordered(st["H"]), ordered(st["ord"]), ordered(st["ng"])]))
                if inp["dom"] != "S" and not beh["exc"]:
                    # the graph REBUILT from its dictionary (names, nesting, and the insertion order of every level) is a result too
                    from numba_scfg.core.datastructures.scfg import SCFG

                    try:
                        st2 = project(SCFG.from_dict(scfg.to_dict())[0])
                        events.append(json.dumps(["rebuilt", ordered(st2["H"]), ordered(st2["ord"]), ordered(st2["ng"])]))
                    except Exception as e:
                        events.append(json.dumps(["rebuilt-exc", type(e).__name__]))
                if inp["dom"] == "S" and not beh["exc"]:
                    import ast

                    from numba_scfg.core.datastructures.ast_transforms import SCFG2AST

                    try:
                        events.append(json.dumps(["source", ast.unparse(SCFG2AST(inp["src"], scfg))]))
                    except Exception as e:
                        events.append(json.dumps(["source-exc", type(e).__name__]))
        except Exception as e:
            events.append(json.dumps(["exc", type(e).__name__]))
        out.append({"id": inp, "events": events})
    with open(out_path, "w") as f:
        json.dump(out, f, separators=(",", ":"))


if __name__ == "__main__":
    main()
