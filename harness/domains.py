"""Input domains (DESIGN section 6): closed CFGs, random CFGs, bytecode corpus.

A graph is a tuple of successor tuples over nodes 0..N-1, entry 0.
"""
from __future__ import annotations

import itertools
import random
from typing import Dict, Iterator, List, Sequence, Tuple

Graph = Tuple[Tuple[int, ...], ...]


def is_closed(g: Sequence[Sequence[int]]) -> bool:
    """The section-9 domain: unique entry 0 without predecessors, everything
    reachable from it, an exit reachable from everything, <=2 ordered distinct
    successors."""
    n = len(g)
    preds = [0] * n
    for u in range(n):
        ss = g[u]
        if len(ss) > 2 or len(set(ss)) != len(ss):
            return False
        for v in ss:
            if not (0 <= v < n):
                return False
            preds[v] += 1
    if preds[0] != 0:
        return False
    if any(preds[v] == 0 for v in range(1, n)):
        return False
    seen = {0}
    st = [0]
    while st:
        u = st.pop()
        for v in g[u]:
            if v not in seen:
                seen.add(v)
                st.append(v)
    if len(seen) != n:
        return False
    # co-reachability of an exit
    rev: List[List[int]] = [[] for _ in range(n)]
    for u in range(n):
        for v in g[u]:
            rev[v].append(u)
    ok = {u for u in range(n) if not g[u]}
    st = list(ok)
    while st:
        u = st.pop()
        for p in rev[u]:
            if p not in ok:
                ok.add(p)
                st.append(p)
    return len(ok) == n


def succ_choices(n: int) -> List[Tuple[int, ...]]:
    tg = list(range(1, n))  # nobody may target the entry
    out: List[Tuple[int, ...]] = [()]
    out += [(a,) for a in tg]
    out += [(a, b) for a in tg for b in tg if a != b]
    return out


def closed_cfgs(n: int) -> Iterator[Graph]:
    ch = succ_choices(n)
    for g in itertools.product(ch, repeat=n):
        if is_closed(g):
            yield g


def canon_relabel(g: Graph) -> Graph:
    """Canonical representative under relabelling of the non-entry nodes."""
    n = len(g)
    best = None
    for perm in itertools.permutations(range(1, n)):
        m = (0,) + perm
        inv = [0] * n
        for i, x in enumerate(m):
            inv[x] = i
        # node i of the new graph is old node m[i]
        h = tuple(tuple(inv[v] for v in g[m[i]]) for i in range(n))
        if best is None or h < best:
            best = h
    assert best is not None
    return best


def closed_cfgs_mod_relabel(n: int) -> List[Graph]:
    seen = set()
    out = []
    for g in closed_cfgs(n):
        c = canon_relabel(g)
        if c not in seen:
            seen.add(c)
            out.append(c)
    return out


def random_closed(rng: random.Random, n: int, p2: float = 0.6, p0: float = 0.12) -> Graph:
    """Seeded random closed CFG with n nodes, out-degree 2 favoured."""
    while True:
        g: List[Tuple[int, ...]] = []
        for u in range(n):
            r = rng.random()
            if u == 0:
                r = p0 + (1 - p0) * r  # the entry is rarely an exit
            if n == 1 or r < p0:
                g.append(())
            elif r < p0 + (1 - p0) * (1 - p2) or n < 3:
                g.append((rng.randrange(1, n),))
            else:
                a = rng.randrange(1, n)
                b = rng.randrange(1, n)
                while b == a:
                    b = rng.randrange(1, n)
                g.append((a, b))
        if is_closed(g):
            return tuple(g)


def random_domain(seed: int, count: int, nmin: int = 6, nmax: int = 14) -> List[Graph]:
    rng = random.Random(seed)
    out = []
    seen = set()
    while len(out) < count:
        n = rng.randint(nmin, nmax)
        g = random_closed(rng, n, p2=rng.choice([0.45, 0.6, 0.8]))
        if g not in seen:
            seen.add(g)
            out.append(g)
    return out


def _heads_of(g: Graph) -> int:
    """Number of synthetic head blocks (header / tail unifications, each with its own control variable) restructuring creates."""
    from numba_scfg.core.datastructures.basic_block import BasicBlock, SyntheticHead
    from numba_scfg.core.datastructures.scfg import SCFG

    try:
        s = SCFG(graph={str(u): BasicBlock(name=str(u), _jump_targets=tuple(str(v) for v in g[u])) for u in range(len(g))})
        s.restructure()
        return sum(1 for _, b in s if isinstance(b, SyntheticHead))
    except Exception:
        return 99          # an aborting input is interesting too


def _heads_chunk(args: Tuple[int, int, int, int]) -> List[Tuple[Graph, int]]:
    seed, count, nmin, nmax = args
    rng = random.Random(seed)
    out = []
    for _ in range(count):
        g = random_closed(rng, rng.randint(nmin, nmax), p2=rng.choice([0.6, 0.8, 0.9]))
        out.append((g, _heads_of(g)))
    return out


def control_heavy_domain(seed: int, count: int, nmin: int = 6, nmax: int = 9, pool: int = 6000, jobs: int = 16) -> List[Graph]:
    """Domain K: seeded random dense closed CFGs kept only if restructuring needs at least THREE head unifications (three control variables
    of one kind with nested lifetimes: the shape in which a mix-up of control variables shows).  The selection runs the library, so it is a
    sampling heuristic, not an oracle: whatever is selected is judged by the same contracts as every other input."""
    import multiprocessing as mp

    ctx = mp.get_context("fork")
    per = pool // jobs
    with ctx.Pool(jobs) as p:
        chunks = p.map(_heads_chunk, [(seed * 1009 + i, per, nmin, nmax) for i in range(jobs)])
    seen = set()
    out: List[Graph] = []
    for ch in chunks:
        for g, h in ch:
            if h >= 3 and g not in seen:
                seen.add(g)
                out.append(g)
    out.sort(key=lambda g: (len(g), g))
    return out[:count]


def giant_named() -> List[Dict[str, List[str]]]:
    """Very long / very deep closed CFGs (long straight-line code after a branch, a loop with a long body, deeply nested ifs, a long
    loop body with a branch in it): restructuring must not depend on the interpreter's recursion limit or blow up."""
    out = []
    g: Dict[str, List[str]] = {"0": ["1", "2"], "1": ["3"], "2": ["3"]}
    for i in range(3, 3 + 1200):
        g[str(i)] = [str(i + 1)]
    g[str(3 + 1200)] = []
    out.append(g)
    g = {"0": ["1"]}
    for i in range(1, 800):
        g[str(i)] = [str(i + 1)]
    g["800"] = ["1", "801"]
    g["801"] = []
    out.append(g)
    d = 150
    g = {}
    for i in range(d):
        g["c%d" % i] = ["c%d" % (i + 1), "j%d" % i]
    g["c%d" % d] = ["j%d" % (d - 1)]
    for i in range(d - 1, 0, -1):
        g["j%d" % i] = ["j%d" % (i - 1)]
    g["j0"] = []
    out.append(g)
    g = {"0": ["1"], "1": ["2", "3"], "2": ["4"], "3": ["4"]}
    for i in range(4, 4 + 600):
        g[str(i)] = [str(i + 1)]
    g[str(4 + 600)] = ["1", "x"]
    g["x"] = []
    out.append(g)
    return out


def graph_to_named(g: Graph) -> Dict[str, List[str]]:
    return {str(u): [str(v) for v in g[u]] for u in range(len(g))}
