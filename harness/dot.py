"""A small parser for the DOT source produced by graphviz.Digraph.source (no graphviz binary involved) - C17."""
from __future__ import annotations

import re
from typing import Any, Dict, List, Tuple

TOK = re.compile(r'\s*(?:(->)|([\[\]{}=;,])|"((?:[^"\\]|\\.)*)"|([^\s\[\]{}=;,"]+))')


def tokens(src: str) -> List[Tuple[str, str]]:
    out, i = [], 0
    while i < len(src):
        m = TOK.match(src, i)
        if not m:
            if src[i:].strip() == "":
                break
            raise ValueError("DOT tokenizer stuck at %r" % src[i:i + 30])
        i = m.end()
        if m.group(1):
            out.append(("op", "->"))
        elif m.group(2):
            out.append(("p", m.group(2)))
        elif m.group(3) is not None:
            out.append(("s", m.group(3)))
        else:
            out.append(("id", m.group(4)))
    return out


def parse(src: str) -> Dict[str, Any]:
    """-> {"nodes": {name: {"label":..., "cluster": name|""}}, "clusters": {name: {"parent":..., "label":...}},
           "edges": [[src, dst, style]]}"""
    tk = tokens(src)
    pos = 0
    nodes: Dict[str, Any] = {}
    clusters: Dict[str, Any] = {}
    edges: List[List[str]] = []

    def peek(k: int = 0) -> Tuple[str, str]:
        return tk[pos + k] if pos + k < len(tk) else ("eof", "")

    def attrs() -> Dict[str, str]:
        nonlocal pos
        a: Dict[str, str] = {}
        if peek() == ("p", "["):
            pos += 1
            while peek() != ("p", "]"):
                if peek()[1] in (",", ";"):
                    pos += 1
                    continue
                k = peek()[1]
                pos += 1
                assert peek() == ("p", "="), peek()
                pos += 1
                a[k] = peek()[1]
                pos += 1
            pos += 1
        return a

    def body(cluster: str) -> None:
        nonlocal pos
        while peek() != ("p", "}") and peek()[0] != "eof":
            t = peek()
            if t[1] == ";":
                pos += 1
            elif t == ("id", "subgraph"):
                pos += 1
                name = peek()[1]
                pos += 1
                assert peek() == ("p", "{")
                pos += 1
                cname = name[len("cluster_"):] if name.startswith("cluster_") else name
                clusters[cname] = {"parent": cluster, "label": ""}
                body(cname)
                assert peek() == ("p", "}")
                pos += 1
            elif peek(1) == ("p", "="):          # graph attribute  key=value
                k = t[1]
                pos += 2
                v = peek()[1]
                pos += 1
                if k == "label" and cluster:
                    clusters[cluster]["label"] = v
            elif peek(1) == ("op", "->"):
                s = t[1]
                pos += 2
                d = peek()[1]
                pos += 1
                a = attrs()
                edges.append([s, d, a.get("style", "solid")])
            else:
                n = t[1]
                pos += 1
                a = attrs()
                if n in ("node", "edge", "graph"):
                    continue
                nodes[n] = {"label": a.get("label", ""), "cluster": cluster}

    assert peek()[1] in ("digraph", "strict"), peek()
    while peek() != ("p", "{"):
        pos += 1
    pos += 1
    body("")
    return {"nodes": nodes, "clusters": clusters, "edges": edges}


def label_facts(label: str) -> Dict[str, Any]:
    """What a label shows: first line (the name), `x = n` assignments, `variable: v`, table entries `k -> t`, remaining text."""
    text = label.replace("\\l", "\n").replace("\\n", "\n")
    lines = [ln.strip() for ln in text.split("\n") if ln.strip()]
    facts: Dict[str, Any] = {"name": lines[0] if lines else "", "asg": [], "var": "", "tab": [], "lines": lines[1:]}
    for ln in lines[1:]:
        m = re.match(r"^(.+) = (-?\d+)$", ln)
        if m:
            facts["asg"].append([m.group(1), int(m.group(2))])
            continue
        m = re.match(r"^variable: (.+)$", ln)
        if m:
            facts["var"] = m.group(1)
            continue
        m = re.match(r"^(-?\d+)\s*(?:→|=>)\s*(\S+)$", ln)
        if m:
            facts["tab"].append([int(m.group(1)), m.group(2)])
    return facts
