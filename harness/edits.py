"""Edit histories (domain H): seed states recorded from the real code, the
rank table for sorted(), and replay of TLC-generated histories into real objects."""
from __future__ import annotations

import json
import random
from typing import Any, Dict, List, Tuple

from numba_scfg.core.datastructures import basic_block as bb
from numba_scfg.core.datastructures import block_names

from . import domains, rb
from .project import project
from .record import build_scfg, exc_sig
from .unproject import find_level, same_state, unproject

TYPES = {"return": bb.SyntheticReturn, "tail": bb.SyntheticTail, "exit": bb.SyntheticExit, "fill": bb.SyntheticFill}
KIND_OF_TYPE = {"return": block_names.SYNTH_RETURN, "tail": block_names.SYNTH_TAIL, "exit": block_names.SYNTH_EXIT, "fill": block_names.SYNTH_FILL}


def type_for(P: List[str], S: List[str]) -> str:
    if not S:
        return "return"
    if len(P) >= 2:
        return "tail"
    if len(S) >= 2:
        return "exit"
    return "fill"


def signature(st: Dict[str, Any]) -> Tuple[Any, ...]:
    H = st["H"]
    kinds = sorted({r["k"] for r in H.values()})
    nreg = sum(1 for r in H.values() if r["k"] == "region")
    regpred = any(r["k"] == "region" and r["jt"] for r in H.values())
    maxlvl = max([0] + [sum(1 for r in H.values() if r["up"] == l) for l in {r["up"] for r in H.values()}])
    return (tuple(kinds), min(nreg, 3), regpred, min(maxlvl, 8))


def make_seeds(seed: int, count: int, max_level: int = 7) -> List[Dict[str, Any]]:
    """Seed states: stage states (closed / loops / branches) recorded from the real code on small closed CFGs,
    chosen greedily for distinct shape signatures, plus hand-made flat graphs."""
    rng = random.Random(seed * 977 + 1)
    graphs = [g for n in (3, 4) for g in domains.closed_cfgs(n)] + rb.closed5_canon()
    rng.shuffle(graphs)
    seen = set()
    out: List[Dict[str, Any]] = []
    from .record import record_restructure

    # always present, whatever the size caps: a loop whose body is a branch (regions nested in a loop region, the latch - a block
    # with a declared back edge - is the exiting block of the tail region), and a loop nest
    # ... a two-header loop (synthetic head fed by assignment blocks, synthetic latch) and a loop with two exits (exit branch)
    for g, stage in ((((1,), (2, 3), (4,), (4,), (1, 5), ()), "branches"), (((1,), (2, 3), (4,), (4,), (1, 5), ()), "loops"),
                     (((1,), (2,), (2, 3), (1, 4), ()), "loops"), (((1, 2), (2,), (1, 3), ()), "loops"),
                     (((1,), (2, 3), (1, 4), (), ()), "loops")):
        beh = record_restructure(build_scfg(domains.graph_to_named(g)), {"g": [list(s) for s in g]}, primitives=False)
        st = beh["stages"].get(stage)
        if st is not None and not beh["exc"]:
            out.append({"H": st["H"], "ng": st["ng"], "root": st["root"], "ord": st["ord"], "from": {"g": [list(s) for s in g], "stage": stage}})

    for g in graphs:
        if len(out) >= count:
            break
        beh = record_restructure(build_scfg(domains.graph_to_named(g)), {"g": [list(s) for s in g]}, primitives=False)
        if beh["exc"]:
            continue
        for stage in ("loops", "closed", "branches"):
            st = beh["stages"].get(stage)
            if st is None:
                continue
            lv = {}
            for r in st["H"].values():
                lv[r["up"]] = lv.get(r["up"], 0) + 1
            if max(lv.values()) > max_level or len(st["H"]) > 14:
                continue
            sig = (stage,) + signature(st)
            if sig in seen:
                continue
            seen.add(sig)
            out.append({"H": st["H"], "ng": st["ng"], "root": st["root"], "ord": st["ord"], "from": {"g": [list(s) for s in g], "stage": stage}})
            if len(out) >= count:
                break
    return out


def handmade_seeds() -> List[Dict[str, Any]]:
    """States no pipeline stage passes through but the primitives' callers can build: (a) a FLAT loop whose latch has a declared back edge
    and whose header has two further (forward) predecessors - a target that is a back edge of one predecessor and a forward target of
    another; (b) a synthetic head whose value table sends two values to the same target (two predecessors, three headers)."""
    out = []
    named = {"0": ["5", "6"], "5": ["1"], "6": ["1"], "1": ["2"], "2": ["1", "3"], "3": []}
    blocks = {n: bb.BasicBlock(name=n, _jump_targets=tuple(ss), backedges=(("1",) if n == "2" else ())) for n, ss in named.items()}
    from numba_scfg.core.datastructures.scfg import SCFG

    st = project(SCFG(graph=blocks))
    out.append({"H": st["H"], "ng": st["ng"], "root": st["root"], "ord": st["ord"], "from": {"named": named, "backedge": ["2", "1"]}})
    named2 = {"0": ["a", "b"], "a": ["h1", "h2"], "b": ["h1", "h3"], "h1": ["x"], "h2": ["x"], "h3": ["x"], "x": []}
    g2 = build_scfg(named2)
    g2.insert_block_and_control_blocks(g2.name_gen.new_block_name(block_names.SYNTH_HEAD), ["a", "b"], ["h1", "h2", "h3"])
    st = project(g2)
    out.append({"H": st["H"], "ng": st["ng"], "root": st["root"], "ord": st["ord"], "from": {"named": named2, "then": "insert_block_and_control_blocks(head, [a, b], [h1, h2, h3])"}})
    # (c) a graph built on a generator that has already served another graph, with block names shaped like the names the primitives draw
    # for their own assignment / head blocks: the blocks a primitive creates must not land on a block that is already there
    named3 = {"0": ["synth_asign_block_0", "synth_asign_block_1"], "synth_asign_block_0": ["synth_head_block_0"], "synth_asign_block_1": ["y"],
              "synth_head_block_0": ["z"], "y": ["z"], "z": []}
    st = project(build_scfg(named3, used_generator=True))
    out.append({"H": st["H"], "ng": st["ng"], "root": st["root"], "ord": st["ord"], "from": {"named": named3, "generator": "already used by another graph"}})
    return out


def wide_seed() -> Dict[str, Any]:
    """A flat graph with a four-way block (three or more arcs from one predecessor into S)."""
    named = {"0": ["1", "2", "3", "4"], "1": ["5"], "2": ["5"], "3": ["5", "6"], "4": ["6"], "5": ["6"], "6": []}
    st = project(build_scfg(named))
    return {"H": st["H"], "ng": st["ng"], "root": st["root"], "ord": st["ord"], "from": {"named": named}}


def rank_table(seeds: List[Dict[str, Any]], kmax: int = 24) -> Dict[str, int]:
    names = set()
    for s in seeds:
        names |= set(s["H"])
        for r in s["H"].values():
            names |= set(r["jt"])
    kinds = ["synth_head", "synth_asign", "synth_exit_latch", "synth_exit", "synth_tail", "synth_fill", "synth_return", "python_bytecode", "basic"]
    for k in kinds:
        for i in range(kmax):
            names.add("%s_block_%d" % (k, i))
    for k in ("loop", "head", "branch", "tail", "meta"):
        for i in range(kmax):
            names.add("%s_region_%d" % (k, i))
    return {n: i for i, n in enumerate(sorted(names))}


def apply_op(scfg: Any, op: Dict[str, Any], info: Dict[str, Any] | None = None) -> str:
    """Apply one history step to live objects the way the library's callers do. Returns '' or the exception signature."""
    lvl = find_level(scfg, op["lvl"])
    P, S = list(op["P"]), list(op["S"])
    info = info if info is not None else {}
    try:
        if op["op"] == "insert_block":
            ty = type_for(P, S)
            new = lvl.name_gen.new_block_name(KIND_OF_TYPE[ty])
            info.update({"new": new, "ty": ty})
            lvl.insert_block(new, P, S, TYPES[ty])
        elif op["op"] == "insert_ctl":
            new = lvl.name_gen.new_block_name(block_names.SYNTH_HEAD)
            info.update({"new": new})
            lvl.insert_block_and_control_blocks(new, P, S)
        elif op["op"] == "join_tails_exits":
            ret = lvl.join_tails_and_exits(P, S)
            info.update({"ret": [str(ret[0]), str(ret[1])]})
        elif op["op"] == "join_returns":
            lvl.join_returns()
        else:
            raise ValueError(op["op"])
    except Exception as e:
        return exc_sig(e)
    return ""


def replay(seed: Dict[str, Any], hist: List[Dict[str, Any]], spec_H: Dict[str, Any], spec_ng: Dict[str, int], aborted: bool) -> List[str]:
    scfg = unproject(seed["H"], seed["root"], seed["ng"], seed.get("ord"))
    exc = ""
    for op in hist:
        exc = apply_op(scfg, op)
        if exc:
            break
    if aborted:
        return [] if exc else ["spec aborts, code does not"]
    if exc:
        return ["code raises %s, spec does not" % exc]
    return same_state(project(scfg), spec_H, spec_ng)


def real_case(seed: Dict[str, Any], hist: List[Dict[str, Any]]) -> Dict[str, Any]:
    """Replay a history on real objects and return the EditTrace case of its LAST step (real pre-state, real delta)."""
    from .evtcases import delta

    scfg = unproject(seed["H"], seed["root"], seed["ng"], seed.get("ord"))
    for op in hist[:-1]:
        apply_op(scfg, op)
    pre = project(scfg)["H"]
    last = hist[-1]
    info: Dict[str, Any] = {}
    exc = apply_op(scfg, last, info)
    post = project(scfg)["H"]
    d = delta(pre, post)
    return {"op": last["op"], "lvl": last["lvl"], "exc": exc, "H": pre, "put": d["put"], "del": d["del"], "new": info.get("new", ""),
            "P": list(last["P"]), "S": list(last["S"]), "ty": info.get("ty", ""), "ret": info.get("ret", [])}
