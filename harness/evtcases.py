"""Derive per-primitive trace cases (pre-state, arguments, delta) from a recorded behaviour."""
from __future__ import annotations

import copy
from typing import Any, Dict, List


def apply_delta(H: Dict[str, Any], ev: Dict[str, Any]) -> Dict[str, Any]:
    K = dict(H)
    for n in ev["del"]:
        K.pop(n, None)
    K.update(ev["put"])
    return K


def delta(H: Dict[str, Any], K: Dict[str, Any]) -> Dict[str, Any]:
    return {"put": {n: r for n, r in K.items() if H.get(n) != r}, "del": [n for n in H if n not in K]}


EDIT_OPS = ("insert_block", "insert_ctl", "join_returns", "join_tails_exits")


def edit_cases(beh: Dict[str, Any]) -> List[Dict[str, Any]]:
    """One case per call of an edit primitive (leaf calls and composite calls alike)."""
    out: List[Dict[str, Any]] = []
    H = beh["init"]
    stack: List[Any] = []
    for i, ev in enumerate(beh["events"]):
        pre = H
        H = apply_delta(H, ev)
        if ev["ph"] == "b":
            stack.append((ev["op"], pre))
            continue
        if ev["ph"] == "e":
            op, pre0 = stack.pop() if stack else (ev["op"], pre)
            pre = pre0
        if ev["op"] not in EDIT_OPS:
            continue
        a = ev["args"]
        d = delta(pre, H)
        c = {"op": ev["op"], "lvl": ev["lvl"], "exc": ev["exc"], "H": pre, "put": d["put"], "del": d["del"],
             "new": a.get("new", ""), "P": a.get("P", a.get("T", [])), "S": a.get("S", a.get("X", [])), "ty": a.get("ty", ""),
             "ret": a.get("ret", []), "ev": i}
        out.append(c)
    return out
