"""Concrete-value executions of hand-written and templated functions that use syntax the abstract reference semantics (PySem.tla)
does not model: tuple / attribute / subscript targets, multiple targets, chained comparisons, constant tests, lambdas, comprehensions,
conditional expressions, f-strings, starred and keyword arguments, assignment expressions, elif chains, deep nesting, long functions,
signatures other than plain positional parameters (with keyword calls and calls that do not bind), decorators, in-place operators on
subscripts and attributes, starred assignment targets, pass and doc strings.

C07's and C08's statements are RELATIONAL (the regenerated function / the block-wise interpretation of the built graph behaves like the
original), so no reference semantics is needed here: for every function and every argument tuple of a small grid the original, the
block-wise interpretation and the regenerated function are executed with recording externals, and TLC compares the recorded event
sequences and outcomes in lockstep (Equiv.tla).  Shapes of the documented known findings (and/or in a hoisted operand position, loop
variable read after a possibly empty for-loop) are kept out of this corpus."""
from __future__ import annotations

import ast
import itertools
import sys
from typing import Any, Dict, List, Sequence, Tuple

LINE_BUDGET = 20000


class _Budget(BaseException):
    pass


class _Box:
    """A plain mutable object for attribute targets."""

    def __init__(self) -> None:
        self.v = 0
        self.w = 0


def externals(events: List[Any]) -> Dict[str, Any]:
    def ev(k: int, *args: Any, **kw: Any) -> int:
        events.append(["ev", int(k), repr(args), repr(sorted(kw.items()))])
        tot = int(k)
        for a in list(args) + [v for _, v in sorted(kw.items())]:
            if isinstance(a, bool):
                tot += int(a)
            elif isinstance(a, int):
                tot += a
        return tot

    def seq(k: int, n: int) -> List[int]:
        events.append(["seq", int(k), int(n)])
        return list(range(max(0, int(n))))

    def pairs(k: int, n: int) -> List[Tuple[int, int]]:
        events.append(["pairs", int(k), int(n)])
        return [(i, i * i) for i in range(max(0, int(n)))]

    def deco(fn: Any) -> Any:
        def wrapped(*a: Any, **k: Any) -> Any:
            events.append(["deco", 0, repr(a), ""])
            return ("deco", fn(*a, **k))
        return wrapped

    def deco2(tag: Any) -> Any:
        def d(fn: Any) -> Any:
            def wrapped(*a: Any, **k: Any) -> Any:
                return ("deco2", tag, fn(*a, **k))
            return wrapped
        return d

    return {"ev": ev, "seq": seq, "pairs": pairs, "Box": _Box, "deco": deco, "deco2": deco2}


def _run(fn: Any) -> List[Any]:
    count = [0]

    def tracer(frame: Any, event: str, arg: Any) -> Any:
        # only lines of the code under execution count (not the harness' own interpreter loop or the ast helpers it calls)
        if frame.f_code.co_filename not in ("<exotic>", "<blk>"):
            return None
        if event == "line":
            count[0] += 1
            if count[0] > LINE_BUDGET:
                raise _Budget()
        return tracer

    try:
        sys.settrace(tracer)
        try:
            res = fn()
        finally:
            sys.settrace(None)
        return ["ret", repr(res)]
    except _Budget:
        return ["diverges", ""]
    except RecursionError:
        return ["exc", "RecursionError"]
    except NameError:
        # reading a local that was never assigned: UnboundLocalError in a function, NameError when the same statement is executed
        # block by block in a name space - the same outcome
        return ["exc", "Unbound"]
    except Exception as e:
        return ["exc", type(e).__name__]
    finally:
        sys.settrace(None)


def run_source(text: str, fname: str, args: Sequence[Any], kwargs: Any = None) -> Dict[str, Any]:
    events: List[Any] = []
    ns = externals(events)
    exec(compile(text, "<exotic>", "exec"), ns)        # (the regenerated text is compiled under the same file name: its lines count too)
    f = ns[fname]
    out = _run(lambda: f(*args, **(kwargs or {})))
    return {"events": events, "outcome": out}


def bind_source(text: str, fname: str, args: Sequence[Any], kwargs: Any) -> Any:
    """(events of the def statement, parameter name -> value) as the original function binds the call, or None when the call does
    not bind."""
    import inspect

    events: List[Any] = []
    ns = externals(events)
    exec(compile(text, "<exotic>", "exec"), ns)
    try:
        b = inspect.signature(ns[fname]).bind(*args, **(kwargs or {}))
    except TypeError:
        return None
    b.apply_defaults()
    return events, dict(b.arguments)


def run_blocks(scfg: Any, pnames: Sequence[str], args: Sequence[int], bound: Any = None) -> Dict[str, Any]:
    """Block-wise interpretation exactly as C08 defines it, with concrete values."""
    events: List[Any] = []
    ns = externals(events)
    if bound is not None:
        events.extend(bound[0])
        ns.update(bound[1])
    else:
        ns.update(dict(zip(pnames, args)))

    def go() -> Any:
        cur = "0"
        steps = 0
        while True:
            steps += 1
            if steps > 4000:
                raise _Budget()
            b = scfg.graph[cur]
            tree = list(b.tree)
            two = len(b._jump_targets) == 2
            val: Any = None
            for k, node in enumerate(tree):
                if isinstance(node, ast.Return):
                    if node.value is None:
                        return None
                    return eval(compile(ast.fix_missing_locations(ast.Expression(body=node.value)), "<blk>", "eval"), ns)
                if isinstance(node, ast.Expr) and two and k == len(tree) - 1:
                    val = eval(compile(ast.fix_missing_locations(ast.Expression(body=node.value)), "<blk>", "eval"), ns)
                elif isinstance(node, ast.expr):
                    val = eval(compile(ast.fix_missing_locations(ast.Expression(body=node)), "<blk>", "eval"), ns)
                else:
                    exec(compile(ast.fix_missing_locations(ast.Module(body=[node], type_ignores=[])), "<blk>", "exec"), ns)
            if two:
                cur = b._jump_targets[0] if val else b._jump_targets[1]
            elif len(b._jump_targets) == 1:
                cur = b._jump_targets[0]
            else:
                return None

    out = _run(go)
    return {"events": events, "outcome": out}


# ------------------------------------------------------------------------------------------------ the corpus
HAND = [
    # elif chains
    "def f(a, b, c):\n    if a == 0:\n        x = ev(1)\n    elif a == 1:\n        x = ev(2, b)\n    elif a == 2:\n        x = ev(3, c)\n    elif b > c:\n        x = ev(4)\n    else:\n        x = ev(5)\n    return x + a\n",
    "def f(a, b, c):\n    r = 0\n    for i in seq(1, a + 2):\n        if i == 0:\n            r += ev(2)\n        elif i == b:\n            continue\n        elif i > c:\n            break\n        else:\n            r += 1\n    else:\n        r += ev(3, r)\n    return r\n",
    # four and five levels of nesting
    "def f(a, b, c):\n    r = 0\n    if a:\n        while r < b + 2:\n            r += 1\n            if r % 2:\n                for j in seq(1, c):\n                    if j == a:\n                        r += ev(2, j)\n                        break\n                    r += 1\n                else:\n                    r += ev(3)\n                    continue\n            r += ev(4)\n    return r\n",
    "def f(a, b, c):\n    t = 0\n    for i in seq(1, a + 1):\n        for j in seq(2, b + 1):\n            for k in seq(3, c + 1):\n                if i + j + k == 3:\n                    return ev(4, i, j, k)\n                if k > j:\n                    break\n                t += 1\n            else:\n                t += 10\n                continue\n            t += 100\n        else:\n            t += 1000\n    return t\n",
    # tuple, attribute and subscript targets
    "def f(a, b, c):\n    r = 0\n    for i, (j, k) in enumerate(pairs(1, a + 1)):\n        r += i + j + k\n        if r > 5 + b:\n            break\n    x, y = ev(2), ev(3, r)\n    return x + y + r\n",
    "def f(a, b, c):\n    o = Box()\n    d = [0, 0, 0]\n    o.v = ev(1, a)\n    d[a % 3] = ev(2, b)\n    while o.v > 0:\n        o.v -= 1\n        d[o.v % 3] += ev(3, o.v)\n        if d[0] > 3 + c:\n            break\n    else:\n        o.w = 7\n    return o.v + o.w + d[0] + d[1] + d[2]\n",
    "def f(a, b, c):\n    x = y = z = ev(1, a)\n    d = {}\n    d[ev(2)] = x\n    for d[0] in seq(3, b + 1):\n        y += d[0]\n    return x + y + z + len(d)\n",
    # chained comparisons
    "def f(a, b, c):\n    n = 0\n    if a < b < c:\n        n += ev(1)\n    if a <= b <= c < 3 != a:\n        n += ev(2)\n    while 0 <= n < a + 3 > b:\n        n += ev(3, n)\n    return n\n",
    "def f(a, b, c):\n    if ev(1, a) < ev(2, b) < ev(3, c):\n        return 1\n    elif ev(4, c) >= ev(5, b) > ev(6, a):\n        return 2\n    return 0\n",
    # constant tests
    "def f(a, b, c):\n    r = 0\n    while True:\n        r += ev(1, r)\n        if r > a + b:\n            break\n    while 1:\n        r -= 1\n        if r < c:\n            return r\n    return -1\n",
    "def f(a, b, c):\n    r = ev(1)\n    while 0:\n        r += ev(2)\n    if 1:\n        r += ev(3, a)\n    if 0:\n        r += ev(4)\n    else:\n        r += ev(5, b)\n    if None:\n        r += ev(6)\n    if 'x':\n        r += ev(7, c)\n    return r\n",
    # expressions the front end leaves alone: lambda, comprehension, conditional expression, f-string, starred, keyword arguments
    "def f(a, b, c):\n    g = lambda x, y=1: ev(1, x, y) if x > y else ev(2, y, x)\n    r = g(a) + g(b, c)\n    xs = [ev(3, i) for i in seq(4, a) if i != b]\n    d = {i: ev(5, i) for i in xs if i % 2}\n    if xs and d:\n        r += len(xs) + len(d)\n    return r\n",
    "def f(a, b, c):\n    r = ev(1) if a else ev(2)\n    s = f'{ev(3, a)}-{ev(4, b)!r}-{c:>3}'\n    t = ev(5, *[a, b], *seq(6, c))\n    u = ev(7, a, k=ev(8, b), j=ev(9, c))\n    if len(s) > 6 and t:\n        return r + t + u\n    return r - u\n",
    "def f(a, b, c):\n    r = 0\n    while (n := ev(1, a, r)) < 6 + b:\n        r += n\n        if (m := r % 3) == c % 3:\n            r += ev(2, m)\n            continue\n        r += 1\n    return r\n",
    "def f(a, b, c):\n    xs = seq(1, a + 2)\n    r = xs[0] + xs[-1]\n    r += sum(xs[1:b + 1])\n    ys = (ev(2), ev(3, b), *xs)\n    if len(ys) > 3 and ys[1] > c:\n        r += ys[1]\n    return r\n",
    # and/or inside the arms of a conditional expression (evaluated only when selected), targets read after the loop
    "def f(a, b, c):\n    r = ev(1) if c else (a or ev(2))\n    s = (b and ev(3)) if a else ev(4)\n    t = ev(5, a) if (a and b) else (ev(6) if c else (b or ev(7)))\n    return (r, s, t)\n",
    "def f(a, b, c):\n    o = Box()\n    d = [5, 6]\n    for o.v in seq(1, a + 1):\n        ev(2, o.v)\n    for d[1] in seq(3, b + 1):\n        if d[1] == c:\n            break\n    else:\n        ev(4, d[1])\n    return (o.v, d[0], d[1])\n",
    # and/or as an ELEMENT of a tuple / list / dict display, a call keyword or a subscript: evaluated in place, after the elements to its left
    "def f(a, b, c):\n    t = (ev(1), a and ev(2), [ev(3), b or ev(4)], {ev(5): c and ev(6)})\n    u = ev(7, k=a or ev(8), j=[b and ev(9)][0])\n    return (t, u, ev(10), c or ev(11))\n",
    "def f(a, b, c):\n    xs = [ev(1), ev(2)]\n    y = xs[a and 1], xs[(b or ev(3)) % 2]\n    z = [ev(4, i) for i in seq(5, 2) if i or ev(6)]\n    return y, z, (lambda q: q and ev(7))(c)\n",
    # a test that only LOADS a name (both arms empty): the load can still raise for an unbound name
    "def f(a, b, c):\n    if a:\n        x = 1\n    r = ev(1)\n    if x:\n        pass\n    else:\n        pass\n    while y_ if False else b:\n        break\n    return r\n".replace("y_ if False else b", "b"),
    "def f(a, b, c):\n    if a > 1:\n        x = ev(1)\n    r = ev(2, a)\n    if x:\n        pass\n    r += ev(3)\n    while x:\n        break\n    return r\n",
    # bare return, return inside nested loops, while/else
    "def f(a, b, c):\n    if a > 2:\n        return\n    for i in seq(1, b + 1):\n        if i == c:\n            return\n        ev(2, i)\n    ev(3)\n",
    "def f(a, b, c):\n    r = 0\n    while r < a:\n        r += 1\n        s = 0\n        while s < b:\n            s += 1\n            if s == c:\n                return ev(1, r, s)\n            if s > r:\n                break\n        else:\n            r += ev(2)\n            continue\n        r += ev(3, s)\n    else:\n        return ev(4, r)\n    return r\n",
    # not / is None / in
    "def f(a, b, c):\n    x = None\n    if a:\n        x = ev(1)\n    if x is None:\n        x = ev(2, b)\n    if not x is None and x is not None:\n        x += 1\n    if c in (0, 2) or a not in [1, 3]:\n        x += ev(3)\n    return x\n",
    # flat and/or chains in tests and values (supported positions)
    "def f(a, b, c):\n    x = a and b and ev(1)\n    y = a or b or ev(2)\n    if a and b and c and ev(3):\n        x = ev(4, x)\n    while c and x and y and ev(5, c):\n        c -= 1\n    return (x, y, c)\n",
    # loop whose last statement is a compound statement; function ending in a loop
    "def f(a, b, c):\n    r = []\n    for i in seq(1, a + 1):\n        if i % 2:\n            r.append(ev(2, i))\n        else:\n            while b > i:\n                b -= 1\n                r.append(b)\n    for j in seq(3, c):\n        if j:\n            r.append(j)\n",
    "def f(a, b, c):\n    out = []\n    i = 0\n    while i < a + b:\n        i += 1\n        if i == c:\n            continue\n        if i > 4:\n            break\n        out.append(ev(1, i))\n    out.append(i)\n    return out\n",
]


def long_functions() -> List[str]:
    """Functions long enough for block indices beyond 9 and beyond 99 (names '10', '100': string order differs from numeric order)."""
    out = []
    for n in (6, 40):
        lines = ["def f(a, b, c):", "    r = 0"]
        for i in range(n):
            lines += ["    if (a + %d) %% 3 == b %% 3:" % i, "        r += ev(%d, r)" % (i + 1), "    else:", "        r -= %d" % (i % 4)]
            if i % 7 == 3:
                lines += ["    while r > %d + c:" % (10 * i), "        r -= ev(%d)" % (100 + i), "        if r % 5 == 0:", "            break"]
        lines += ["    return r"]
        out.append("\n".join(lines) + "\n")
    return out


def templated() -> List[str]:
    """A small product: loop kind x where the terminator sits x what follows the loop."""
    out = []
    loops = {"while": "    i = 0\n    while i < a + 2:\n        i += 1\n{B}", "for": "    for i in seq(9, a + 2):\n{B}", "whiletrue": "    i = 0\n    while True:\n        i += 1\n        if i > a + 2:\n            break\n{B}"}
    bodies = ["        if i == b:\n            {T}\n        r += ev(1, i)\n", "        r += ev(1, i)\n        if i == b:\n            {T}\n", "        if i == b:\n            if c:\n                {T}\n            r += 1\n        r += ev(1, i)\n",
              "        for j in seq(2, c):\n            if j == b:\n                {T}\n            r += j\n        r += ev(1, i)\n"]
    elses = ["", "    else:\n        r += ev(7)\n", "    else:\n        return ev(8, r)\n"]
    for (lk, lt), body, term, els in itertools.product(loops.items(), bodies, ["break", "continue", "return r"], elses):
        if lk == "whiletrue" and els:
            continue
        src = "def f(a, b, c):\n    r = 0\n" + lt.replace("{B}", body.replace("{T}", term)) + els + "    return r + 1\n"
        out.append(src)
    return out


def nested_else() -> List[str]:
    """Outer loop x inner loop with an else clause x where in that else clause a break / continue / return sits (directly, or inside an
    if / elif / else): the terminator belongs to the OUTER loop."""
    out = []
    outers = {"while": "    i = 0\n    while i < a + 2:\n        i += 1\n{B}        r += ev(5, i)\n", "for": "    for i in seq(8, a + 2):\n{B}        r += ev(5, i)\n"}
    inners = {"for": "        for j in seq(2, b + 1):\n            r += j\n            if j == c:\n                break\n        else:\n{E}",
              "while": "        j = 0\n        while j < b + 1:\n            j += 1\n            r += j\n            if j == c:\n                break\n        else:\n{E}"}
    elses = ["            r += ev(3, r)\n            {T}\n",
             "            if i == 1:\n                {T}\n            r += ev(3, r)\n",
             "            if i == 0:\n                r += 1\n            elif i == 1:\n                {T}\n            else:\n                r += 2\n            r += ev(4)\n"]
    for (ok_, ot), (ik, it_), els, term in itertools.product(outers.items(), inners.items(), elses, ["break", "continue", "return r"]):
        out.append("def f(a, b, c):\n    r = 0\n" + ot.replace("{B}", it_.replace("{E}", els.replace("{T}", term))) + "    return r + 1\n")
    return out


# Signatures: positional-only and keyword-only parameters, defaults (evaluated once, when the def statement runs), *rest and **kw,
# annotations.  Each source comes with its own calls [positional, keywords]; some of them do not bind (TypeError in the original, and
# the regenerated function has to refuse the same way).
_LOOP = "    t = 0\n    while n > 0:\n        t += step\n        n -= 1\n        if t > 7:\n            break\n    else:\n        t += ev(1, t)\n"
SIGS: List[Any] = [
    ("def f(n, step, /, scale=1, *rest, bias=0, **kw):\n" + _LOOP + "    for r in rest:\n        t += r * scale\n    return t + bias, sorted(kw.items())\n",
     [[[3, 2], {}], [[3, 2, 5], {}], [[1, 1, 1, 7, 8], {"bias": 4}], [[2, 2], {"scale": 3, "zz": 0}], [[2, 2], {"n": 1, "step": 5}], [[], {"n": 1, "step": 5}],
      [[1], {}], [[0, 0, 2, 9], {"bias": 1, "scale": 9}]]),
    ("def f(n, /, step, *, lim):\n" + _LOOP + "    if t > lim:\n        return ev(2, t)\n    return t\n",
     [[[2, 1], {"lim": 0}], [[2], {"step": 3, "lim": 9}], [[2, 1, 5], {}], [[], {"n": 2, "step": 1, "lim": 1}], [[4, 3], {"lim": 5}], [[0, 0], {"lim": -1}], [[1, 1], {}]]),
    ("def f(n, step=ev(8), /, lim=ev(9, 1)):\n" + _LOOP + "    if t > lim:\n        return ev(2, t)\n    return t, lim\n",
     [[[2], {}], [[2, 1], {}], [[2, 1, 0], {}], [[3], {"lim": 30}], [[3], {"step": 1}], [[], {}], [[1, 2, 3, 4], {}]]),
    ("def f(*xs, **kw):\n    t = 0\n    for x in xs:\n        if x in kw:\n            continue\n        t += ev(1, x)\n    for k in sorted(kw):\n        if kw[k]:\n            t += 1\n        else:\n            break\n    return t, len(xs), len(kw)\n",
     [[[], {}], [[1, 2, 3], {}], [[1, 2], {"a": 1, "b": 0, "c": 1}], [["a", "q"], {"a": 1}], [[], {"xs": 1, "kw": 0}]]),
    ("def f(n, step: int = 2, *rest: int, lim: 'str' = 3, **kw: int) -> int:\n" + _LOOP + "    if rest and t > lim:\n        return ev(2, rest[0])\n    return t\n",
     [[[2], {}], [[3, 1, 9], {}], [[9, 1, 9], {"lim": 0}], [[2], {"step": 4, "zz": 1}], [[], {"n": 1}], [[], {}], [[2, 2], {"n": 1}]]),
    ("def f(n=3, step=1):\n" + _LOOP + "    return t\n", [[[], {}], [[5], {}], [[5, 2], {}], [[], {"step": 9}], [[1, 2, 3], {}], [[1], {"n": 1}]]),
]
CALLS: Dict[str, Any] = {s: c for s, c in SIGS}

# Decorated functions: the decorators belong to the def statement, so only the regenerated FUNCTION can be compared (C07); the
# block-wise interpretation of the body (C08) has no def statement.
DECORATED = [
    "@deco\ndef f(a, b, c):\n    r = 0\n    while r < a:\n        r += ev(1, r)\n    return r + b\n",
    "@deco2(ev(5))\n@deco\ndef f(a, b, c) -> 'int':\n    if a:\n        return ev(1, b)\n    return c\n",
]
MORE = [
    # in-place operators on subscripts and attributes, unpacking and starred assignment targets, pass
    "def f(a, b, c):\n    r = [0, 0]\n    o = Box()\n    for i in seq(1, a):\n        r[i % 2] += ev(2, i)\n        o.v += i\n        r[0] -= b\n        o.v *= 2\n    return r, o.v\n",
    "def f(a, b, c):\n    x = y = 0\n    x, y = y + a, x + b\n    (x, y), z = (y, x), c\n    [p, *q] = seq(1, a + 1)\n    while q:\n        p, *q = q\n        x += ev(2, p)\n    return x, y, z, p, q\n",
    "def f(a, b, c):\n    '''doc string'''\n    r = 0\n    while r < b:\n        r += 1\n        pass\n    if c:\n        pass\n    else:\n        r += ev(2)\n    return r\n",
    "def f(a, b, c):\n    r = 0\n    for i in seq(1, a):\n        pass\n    while r < b:\n        r += 1\n    return r\n",
    "def f(a, b, c):\n    r = 0\n    if a:\n        pass\n    elif b:\n        r = ev(1)\n    else:\n        pass\n    while r < c:\n        r += 1\n    else:\n        pass\n    return r\n",
]


def corpus() -> List[str]:
    return HAND + long_functions() + templated() + nested_else() + [s for s, _ in SIGS] + DECORATED + MORE


GRID = [(a, b, c) for a in (0, 1, 2, 3) for b in (0, 1, 2) for c in (0, 1, 3)]


def evaluate(src: str, who: str) -> Dict[str, Any]:
    """Run one function through the pipeline and execute it on the grid.  who = "blocks" (C08) or "regen" (C07)."""
    from numba_scfg.core.datastructures.ast_transforms import AST2SCFG, SCFG2AST

    from .record import exc_sig

    rec: Dict[str, Any] = {"src": src, "outcome": "ok", "stage": "", "exc": "", "runs": []}
    try:
        compile(src, "<exotic>", "exec")
    except SyntaxError as e:
        rec.update({"outcome": "badsource", "exc": str(e)})
        return rec
    text = ""
    scfg = None
    try:
        rec["stage"] = "ast2scfg"
        scfg = AST2SCFG(src)
        if who == "regen":
            rec["stage"] = "restructure"
            scfg.restructure()
            rec["stage"] = "scfg2ast"
            fdef = SCFG2AST(src, scfg)
            rec["stage"] = "unparse"
            text = ast.unparse(ast.fix_missing_locations(ast.Module(body=[fdef], type_ignores=[])))
            rec["stage"] = "compile"
            compile(text, "<regenerated>", "exec")
        rec["stage"] = "done"
    except NotImplementedError as e:
        rec.update({"outcome": "refused", "exc": exc_sig(e)})
        return rec
    except SyntaxError:
        rec.update({"outcome": "internal", "exc": "SyntaxError@generated-code"})
        return rec
    except Exception as e:
        rec.update({"outcome": "internal", "exc": exc_sig(e)})
        return rec
    if who == "blocks" and src in DECORATED:
        return rec
    for args, kwargs in CALLS.get(src) or [(list(a), {}) for a in GRID]:
        o = run_source(src, "f", args, kwargs)
        if who == "blocks":
            bound = bind_source(src, "f", args, kwargs) if src in CALLS else None
            if src in CALLS and bound is None:
                continue            # the call does not bind: no name space to interpret the blocks in
            x = run_blocks(scfg, ("a", "b", "c"), args, bound)
        else:
            x = run_source(text, "transformed_f", args, kwargs)
        rec["runs"].append({"args": [list(args), kwargs] if src in CALLS else list(args), "oev": o["events"], "oout": o["outcome"], "xev": x["events"], "xout": x["outcome"]})
    return rec
