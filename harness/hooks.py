"""Stage hooks: observations taken from the live graph after every stage
(run inside the recording worker; signature hook(stage, scfg, input))."""
from __future__ import annotations

from typing import Any, Dict

from numba_scfg.core.datastructures.basic_block import RegionBlock

from .record import exc_sig


def views(stage: str, scfg: Any, inp: Any) -> Dict[str, Any]:
    out: Dict[str, Any] = {"iter": [], "iterexc": "", "views": {}, "viewexc": {}}
    try:
        out["iter"] = [str(n) for n, _ in scfg]
    except Exception as e:
        out["iterexc"] = exc_sig(e)

    def rec(g: Any, lvl: str, depth: int) -> None:
        out["viewexc"][lvl] = ""
        try:
            out["views"][lvl] = [str(n) for n in g.concealed_region_view]
        except Exception as e:
            out["views"][lvl] = []
            out["viewexc"][lvl] = exc_sig(e)
        if depth > 100:
            return
        for n, b in list(g.graph.items()):
            if isinstance(b, RegionBlock) and b.subregion is not None:
                rec(b.subregion, str(n), depth + 1)

    rec(scfg, str(scfg.region.name), 0)
    return out


def roundtrip(stage: str, scfg: Any, inp: Any) -> Dict[str, Any]:
    """C15: write / read / write / read through the dictionary and the YAML path."""
    from numba_scfg.core.datastructures.scfg import SCFG

    from .project import project

    out: Dict[str, Any] = {}
    for path in ("dict", "yaml"):
        rec: Dict[str, Any] = {"excw": "", "excr": "", "excw2": "", "excr2": "", "H2": {}, "H3": {}, "root2": "", "d1": {}, "d2": {}}
        try:
            d1 = scfg.to_dict() if path == "dict" else scfg.to_yaml()
        except Exception as e:
            rec["excw"] = exc_sig(e)
            out[path] = rec
            continue
        rec["d1"] = d1
        try:
            g2, _ = SCFG.from_dict(d1) if path == "dict" else SCFG.from_yaml(d1)
            st2 = project(g2)
            rec["H2"], rec["root2"] = st2["H"], st2["root"]
        except Exception as e:
            rec["excr"] = exc_sig(e)
            out[path] = rec
            continue
        try:
            d2 = g2.to_dict() if path == "dict" else g2.to_yaml()
            rec["d2"] = d2
        except Exception as e:
            rec["excw2"] = exc_sig(e)
            out[path] = rec
            continue
        try:
            g3, _ = SCFG.from_dict(d2) if path == "dict" else SCFG.from_yaml(d2)
            rec["H3"] = project(g3)["H"]
        except Exception as e:
            rec["excr2"] = exc_sig(e)
        out[path] = rec
    return out


def roundtrip_cases(case: Dict[str, Any]):
    """derive: one RoundTrip case per (stage, path)."""
    out = []
    for st in case.get("stages", []):
        hk = st.get("hook") or {}
        for path in ("dict", "yaml"):
            if path not in hk:
                continue
            r = dict(hk[path])
            r.update({"H": st["H"], "root": case["root"], "stage": st["name"], "path": path})
            out.append(r)
    return out
