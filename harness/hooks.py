"""Stage hooks: observations taken from the live graph after every stage
(run inside the recording worker; signature hook(stage, scfg, input))."""
from __future__ import annotations

from typing import Any, Dict

from numba_scfg.core.datastructures.basic_block import RegionBlock

from .record import exc_sig


# view objects taken after the previous stage of the same graph object and kept: a view is a LIVE view, so iterating it again after the
# graph has been transformed must enumerate the graph as it is now
_HELD: Dict[int, Dict[str, Any]] = {}


def views(stage: str, scfg: Any, inp: Any) -> Dict[str, Any]:
    out: Dict[str, Any] = {"iter": [], "iterexc": "", "views": {}, "viewexc": {}, "from": {}, "held": {}}
    held_prev = _HELD.get(id(scfg), {}) if stage != "input" else {}
    held_now: Dict[str, Any] = {}
    try:
        out["iter"] = [str(n) for n, _ in scfg]
    except Exception as e:
        out["iterexc"] = exc_sig(e)

    def rec(g: Any, lvl: str, depth: int) -> None:
        out["viewexc"][lvl] = ""
        hv = held_prev.get(lvl)
        if hv is not None and hv[0] is g:
            try:
                out["held"][lvl] = [str(n) for n in hv[1]]
            except Exception as e:
                out["held"][lvl] = ["!" + exc_sig(e)]
        try:
            v_ = g.concealed_region_view
            list(v_)                      # iterate once, then keep the object for the next stage
            held_now[lvl] = (g, v_)
        except Exception:
            pass
        try:
            out["views"][lvl] = [str(n) for n in g.concealed_region_view]
        except Exception as e:
            out["views"][lvl] = []
            out["viewexc"][lvl] = exc_sig(e)
        # the iterator started at an explicit head (every item of a small level in turn)
        if len(g.graph) <= 8 and not out["viewexc"][lvl]:
            fr = {}
            for h in list(g.graph):
                try:
                    fr[str(h)] = [str(n) for n in g.concealed_region_view.region_view_iterator(h)]
                except Exception as e:
                    fr[str(h)] = ["!" + exc_sig(e)]
            out["from"][lvl] = fr
        if depth > 100:
            return
        for n, b in list(g.graph.items()):
            if isinstance(b, RegionBlock) and b.subregion is not None:
                rec(b.subregion, str(n), depth + 1)

    rec(scfg, str(scfg.region.name), 0)
    _HELD.clear()
    _HELD[id(scfg)] = held_now
    return out


def roundtrip(stage: str, scfg: Any, inp: Any) -> Dict[str, Any]:
    """C15: write / read / write / read through the dictionary and the YAML path."""
    from numba_scfg.core.datastructures.scfg import SCFG

    from .project import project

    out: Dict[str, Any] = {}
    for path in ("dict", "yaml"):
        rec: Dict[str, Any] = {"excw": "", "excr": "", "excw2": "", "excr2": "", "H2": {}, "H3": {}, "root2": "", "d1": {}, "d2": {}, "ord2": {},
                               "used": False, "Hb": {}, "Ha": {}, "H4": {}, "exc4": ""}
        try:
            d1 = scfg.to_dict() if path == "dict" else scfg.to_yaml()
        except Exception as e:
            rec["excw"] = exc_sig(e)
            out[path] = rec
            continue
        rec["d1"] = d1
        try:
            g2, _ = SCFG.from_dict(d1) if path == "dict" else SCFG.from_yaml(d1)
            st2 = project(g2)
            rec["H2"], rec["root2"], rec["ord2"] = st2["H"], st2["root"], st2["ord"]
        except Exception as e:
            rec["excr"] = exc_sig(e)
            out[path] = rec
            continue
        try:
            d2 = g2.to_dict() if path == "dict" else g2.to_yaml()
            rec["d2"] = d2
        except Exception as e:
            rec["excw2"] = exc_sig(e)
            out[path] = rec
            continue
        try:
            g3, _ = SCFG.from_dict(d2) if path == "dict" else SCFG.from_yaml(d2)
            rec["H3"] = project(g3)["H"]
        except Exception as e:
            rec["excr2"] = exc_sig(e)
        if path == "dict" and stage != "branches":
            # ... and the written dictionary stays what it is, and the graph it was written from stays what it is, while a graph read
            # from it is USED (the rest of the pipeline runs on the re-read graph): the dictionary is then read once more
            from .record import Tracer

            act, Tracer.active = Tracer.active, None
            try:
                rec["Hb"] = project(scfg)["H"]
                todo = {"input": 0, "closed": 1, "loops": 2}.get(stage, 3)
                for fn in ("join_returns", "restructure_loop", "restructure_branch")[todo:]:
                    try:
                        getattr(g2, fn)()
                    except Exception:
                        break
                rec["Ha"] = project(scfg)["H"]
                rec["used"] = True
                try:
                    rec["H4"] = project(SCFG.from_dict(d1)[0])["H"]
                except Exception as e:
                    rec["exc4"] = exc_sig(e)
            finally:
                Tracer.active = act
        out[path] = rec
    return out


def canon_dict(d: Dict[str, Any]) -> Dict[str, Any]:
    """The written dictionary in the canonical form of SerialImpl.tla (total records)."""
    out = {}
    for n, b in d["blocks"].items():
        out[n] = {"type": b["type"], "kind": b.get("kind", ""), "contains": list(b.get("contains", [])), "header": b.get("header", ""),
                  "exiting": b.get("exiting", ""), "parent": b.get("parent_region", ""), "var": b.get("variable", ""),
                  "tab": [[int(k), v] for k, v in b.get("branch_value_table", {}).items()],
                  "asg": [[k, int(v)] for k, v in b.get("variable_assignment", {}).items()],
                  "begin": b.get("begin", -1), "end": b.get("end", -1), "edges": list(d["edges"].get(n, [])), "backedges": list(d["backedges"].get(n, []))}
    return out


def serial_cases(case: Dict[str, Any]):
    """derive: one SerialImpl case per stage (dictionary path): H, the written dictionary, the re-read state and its dict order."""
    out = []
    for st in case.get("stages", []):
        hk = (st.get("hook") or {}).get("dict")
        if not hk or hk["excw"] or hk["excr"] or not isinstance(hk["d1"], dict):
            continue
        if any(b["k"] == "ast" for b in st["H"].values()):
            continue
        out.append({"root": case["root"], "H": st["H"], "D": canon_dict(hk["d1"]), "root2": hk["root2"], "H2": hk["H2"], "ord2": hk["ord2"]})
    return out


def roundtrip_cases(case: Dict[str, Any]):
    """derive: one RoundTrip case per (stage, path)."""
    out = []
    for st in case.get("stages", []):
        hk = st.get("hook") or {}
        for path in ("dict", "yaml"):
            if path not in hk:
                continue
            r = dict(hk[path])
            r.update({"H": st["H"], "root": case["root"], "stage": st["name"], "path": path})
            out.append(r)
    return out


def _drawing(src_fn: Any, offsets: Any = None, codes: Any = None) -> Dict[str, Any]:
    from . import dot

    out: Dict[str, Any] = {"exc": "", "nodes": {}, "clusters": {}, "solid": [], "dashed": [], "parseexc": ""}
    try:
        src = src_fn()
    except Exception as e:
        out["exc"] = exc_sig(e)
        return out
    try:
        d = dot.parse(src)
    except Exception as e:
        out["parseexc"] = repr(e)
        return out
    import re

    for n, r in d["nodes"].items():
        f = dot.label_facts(r["label"])
        offs = [int(m.group(1)) for ln in f["lines"] for m in [re.match(r"^(\d+): [A-Z_0-9]+$", ln)] if m]
        out["nodes"][n] = {"cluster": r["cluster"], "lname": f["name"], "asg": f["asg"], "var": f["var"], "tab": f["tab"],
                           "offs": offs if offsets is not None else [], "expoffs": (offsets.get(n, []) if offsets is not None else [])}
        if codes is not None and n in codes:
            # payload summary of an AST block: its statements as source text (everything in the label that is not the name or the
            # "jump targets: / back edges:" lines)
            out["nodes"][n]["offs"] = [ln for ln in f["lines"] if not ln.startswith(("jump targets:", "back edges:"))]
            out["nodes"][n]["expoffs"] = codes[n]
    for n, r in d["clusters"].items():
        out["clusters"][n] = {"parent": r["parent"], "lname": dot.label_facts(r["label"])["name"]}
    out["solid"] = [[a, b] for a, b, st in d["edges"] if st != "dashed"]
    out["dashed"] = [[a, b] for a, b, st in d["edges"] if st == "dashed"]
    return out


def render(stage: str, scfg: Any, inp: Any) -> Dict[str, Any]:
    """C17: the DOT source of SCFGRenderer (and of ByteFlowRenderer for bytecode graphs), parsed."""
    import logging

    logging.disable(logging.CRITICAL)
    from numba_scfg.rendering.rendering import ByteFlowRenderer, SCFGRenderer

    codes = None
    if inp.get("dom") == "S":
        import ast

        from numba_scfg.core.datastructures.basic_block import PythonASTBlock

        codes = {}
        for name, b in scfg:
            if isinstance(b, PythonASTBlock):
                codes[str(name)] = [ln.strip() for node in b.tree for ln in ast.unparse(node).split("\n") if ln.strip()]
    out = {"scfg": _drawing(lambda: SCFGRenderer(scfg).render_scfg().source, codes=codes)}
    if inp.get("dom") == "B":
        import dis

        from numba_scfg.core.datastructures.basic_block import PythonBytecodeBlock
        from numba_scfg.core.datastructures.byte_flow import ByteFlow

        from . import corpus

        bc = dis.Bytecode(corpus.resolve(inp["fn"]))
        alloffs = [i.offset for i in bc]
        expect = {}
        for name, b in scfg:
            if isinstance(b, PythonBytecodeBlock):
                expect[str(name)] = [o for o in alloffs if b.begin <= o < b.end]
        out["bf"] = _drawing(lambda: ByteFlowRenderer().render_byteflow(ByteFlow(bc=bc, scfg=scfg)).source, expect)
    return out
