"""Stage hooks: observations taken from the live graph after every stage
(run inside the recording worker; signature hook(stage, scfg, input))."""
from __future__ import annotations

from typing import Any, Dict

from numba_scfg.core.datastructures.basic_block import RegionBlock

from .record import exc_sig


def views(stage: str, scfg: Any, inp: Any) -> Dict[str, Any]:
    out: Dict[str, Any] = {"iter": [], "iterexc": "", "views": {}, "viewexc": {}}
    try:
        out["iter"] = [str(n) for n, _ in scfg]
    except Exception as e:
        out["iterexc"] = exc_sig(e)

    def rec(g: Any, lvl: str, depth: int) -> None:
        out["viewexc"][lvl] = ""
        try:
            out["views"][lvl] = [str(n) for n in g.concealed_region_view]
        except Exception as e:
            out["views"][lvl] = []
            out["viewexc"][lvl] = exc_sig(e)
        if depth > 100:
            return
        for n, b in list(g.graph.items()):
            if isinstance(b, RegionBlock) and b.subregion is not None:
                rec(b.subregion, str(n), depth + 1)

    rec(scfg, str(scfg.region.name), 0)
    return out
