"""Domain M: hand-made graphs that no front end produces but the library's constructors allow - for the properties that quantify over
"every graph the library can build" (C15, C17): a two-header loop entered over 11 arcs (a value table with 11 rows after loop
restructuring), and synthetic blocks whose control VARIABLES are named like YAML keywords, with table keys >= 10, negative and large values."""
from __future__ import annotations

from typing import Any, Dict

from numba_scfg.core.datastructures import basic_block as bb
from numba_scfg.core.datastructures.scfg import SCFG


def _wide_loop(arcs: int) -> SCFG:
    g: Dict[str, Any] = {}
    for i in range(arcs):
        g["c%d" % i] = ["p%d" % i, ("c%d" % (i + 1)) if i + 1 < arcs else "x"]
        g["p%d" % i] = ["h1" if i % 2 == 0 else "h2"]
    g["h1"] = ["h2"]
    g["h2"] = ["h1", "x"]
    g["x"] = []
    return SCFG(graph={n: bb.BasicBlock(name=n, _jump_targets=tuple(t)) for n, t in g.items()})


def _yaml_variables(var: str, other: str) -> SCFG:
    blocks = {
        "e": bb.BasicBlock(name="e", _jump_targets=("a1", "a2")),
        "a1": bb.SyntheticAssignment(name="a1", _jump_targets=("hd",), variable_assignment={var: 0, other: -1}),
        "a2": bb.SyntheticAssignment(name="a2", _jump_targets=("hd",), variable_assignment={var: 256, other: 10}),
        "hd": bb.SyntheticHead(name="hd", _jump_targets=("x", "y"), variable=var, branch_value_table={0: "x", 10: "y", -1: "x", 256: "y"}),
        "x": bb.BasicBlock(name="x", _jump_targets=("z",)),
        "y": bb.BasicBlock(name="y", _jump_targets=("z",)),
        "z": bb.BasicBlock(name="z"),
    }
    return SCFG(graph=blocks)


def _nested_headers() -> SCFG:
    """A hand-made hierarchy (as the test-suite writes them): an outer loop region whose header is an inner loop region whose header is a
    head region whose header is block h - the back edge of the outer latch names a region nested TWICE above its innermost header."""
    from .unproject import unproject

    root = "meta_region_0"
    H = {
        "e": {"k": "basic", "jt": ["outer"], "be": [], "up": root},
        "outer": {"k": "region", "jt": ["z"], "be": [], "up": root, "rk": "loop", "header": "inner", "exiting": "x", "pp": root, "sr": "outer"},
        "z": {"k": "basic", "jt": [], "be": [], "up": root},
        "inner": {"k": "region", "jt": ["x"], "be": [], "up": "outer", "rk": "loop", "header": "hreg", "exiting": "b", "pp": "outer", "sr": "inner"},
        "x": {"k": "basic", "jt": ["z", "inner"], "be": ["inner"], "up": "outer"},
        "hreg": {"k": "region", "jt": ["b"], "be": [], "up": "inner", "rk": "head", "header": "h", "exiting": "h", "pp": "inner", "sr": "hreg"},
        "b": {"k": "basic", "jt": ["x", "hreg"], "be": ["hreg"], "up": "inner"},
        "h": {"k": "basic", "jt": ["b"], "be": [], "up": "hreg"},
    }
    return unproject(H, root, {"meta": 1}, {root: ["e", "outer", "z"], "outer": ["inner", "x"], "inner": ["hreg", "b"], "hreg": ["h"]})


BUILDERS = {
    "nested-headers": _nested_headers,
    "wide-loop-11": lambda: _wide_loop(11),
    "wide-loop-13": lambda: _wide_loop(13),
    "wide-loop-12": lambda: _wide_loop(12),
    "yaml-vars-on-null": lambda: _yaml_variables("on", "null"),
    "yaml-vars-yes-no": lambda: _yaml_variables("yes", "no"),
    "yaml-vars-true-1e3": lambda: _yaml_variables("true", "1e3"),
    "yaml-vars-odd": lambda: _yaml_variables("a: b", "it's"),
}


def inputs():
    return [{"dom": "M", "which": k} for k in BUILDERS]


def build(which: str) -> SCFG:
    return BUILDERS[which]()
