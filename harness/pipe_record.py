"""usage: python -m harness.pipe_record <inputs.json> <outdir> <jobs>  - record stage states of the real pipeline in THIS interpreter
(whatever its PYTHONHASHSEED) for TracePipeline.tla; writes <outdir>/shards.json."""
import json
import os
import sys

if __name__ == "__main__":
    from harness.checks import pipefam

    with open(sys.argv[1]) as f:
        inputs = json.load(f)
    shards = pipefam.record(inputs, os.path.join(sys.argv[2], "rec"), int(sys.argv[3]))
    with open(os.path.join(sys.argv[2], "shards.json"), "w") as f:
        json.dump(shards, f)
