"""Projection of live numba_scfg objects onto the abstract state of DESIGN 3.1.

This is the only module that looks inside the library's objects.  The same
function is used for recording (code -> spec) and for comparing (spec -> code).

Abstract state:  H : name -> record, plus `ord` (dict insertion order per
level), `root` (name of the meta region), `ng` (name generator counters) and
`dup` (names met twice while flattening - WellFormed requires it empty).
"""
from __future__ import annotations

from typing import Any, Dict, List

from numba_scfg.core.datastructures import basic_block as bb
from numba_scfg.core.datastructures.scfg import SCFG

KIND = [
    (bb.RegionBlock, "region"),
    (bb.SyntheticAssignment, "assign"),
    (bb.SyntheticHead, "head"),
    (bb.SyntheticExitingLatch, "latch"),
    (bb.SyntheticExitBranch, "exitbranch"),
    (bb.SyntheticBranch, "branch"),
    (bb.SyntheticTail, "tail"),
    (bb.SyntheticExit, "exit"),
    (bb.SyntheticFill, "fill"),
    (bb.SyntheticReturn, "return"),
    (bb.SyntheticBlock, "synth"),
    (bb.PythonBytecodeBlock, "bytecode"),
    (bb.PythonASTBlock, "ast"),
    (bb.BasicBlock, "basic"),
]
BRANCH_KINDS = ("head", "latch", "exitbranch", "branch")


def kind_of(block: Any) -> str:
    for cls, k in KIND:
        if type(block) is cls:
            return k
    for cls, k in KIND:
        if isinstance(block, cls):
            return k
    return "unknown"


class PayloadIds:
    """Dense renumbering of payload identities (id() of AST nodes etc.)."""

    def __init__(self) -> None:
        self.ids: Dict[int, int] = {}
        self.keep: List[Any] = []

    def of(self, obj: Any) -> int:
        k = id(obj)
        if k not in self.ids:
            self.ids[k] = len(self.ids) + 1
            self.keep.append(obj)  # keep alive so id() is not reused
        return self.ids[k]


def payload(block: Any, pids: PayloadIds | None) -> List[Any]:
    k = kind_of(block)
    if k == "bytecode":
        return [int(block.begin), int(block.end)]
    if k == "ast":
        if pids is None:
            return [len(block.tree)]
        return [pids.of(n) for n in block.tree]
    return []


def block_record(name: str, b: Any, up: str, pids: PayloadIds | None) -> Dict[str, Any]:
    k = kind_of(b)
    rec: Dict[str, Any] = {
        "k": k,
        "jt": [str(x) for x in b._jump_targets],
        "be": [str(x) for x in b.backedges],
        "up": up,
    }
    if k in ("bytecode", "ast"):
        rec["pay"] = payload(b, pids)
    if k == "assign":
        rec["asg"] = [[str(v), _num(x)] for v, x in b.variable_assignment.items()]
    elif k in BRANCH_KINDS:
        rec["var"] = str(b.variable)
        rec["tab"] = [[_num(v), str(t)] for v, t in b.branch_value_table.items()]
    elif k == "region":
        rec["rk"] = str(b.kind)
        rec["header"] = "" if b.header is None else str(b.header)
        rec["exiting"] = "" if b.exiting is None else str(b.exiting)
        pr = b.parent_region
        rec["pp"] = "" if pr is None else (str(pr.name) if hasattr(pr, "name") else "!" + type(pr).__name__ + ":" + str(pr))
        sr = b.subregion
        rec["sr"] = "" if sr is None else str(sr.region.name)
    return rec


def _num(x: Any) -> int:
    try:
        return int(x)
    except Exception:
        return -999


def project(scfg: SCFG, pids: PayloadIds | None = None) -> Dict[str, Any]:
    H: Dict[str, Any] = {}
    order: Dict[str, List[str]] = {}
    dup: List[str] = []
    bp: Dict[str, Any] = {}
    root = str(scfg.region.name)

    def walk(g: SCFG, up: str, depth: int) -> None:
        if depth > 200:
            dup.append("<<recursion>>")
            return
        order[up] = [str(n) for n in g.graph.keys()]
        for name, b in g.graph.items():
            name = str(name)
            if name in H or name == root:
                dup.append(name)
                continue
            H[name] = block_record(name, b, up, pids)
            if str(b.name) != name:
                dup.append(name + "!=" + str(b.name))
            if isinstance(b, bb.RegionBlock) and b.subregion is not None:
                # what the region's OWN sub-graph says about the region it represents (SCFG.region): it must be this region
                back = b.subregion.region
                bpr = getattr(back, "parent_region", None)
                bp[name] = {"name": str(getattr(back, "name", "")), "kind": str(getattr(back, "kind", "")),
                            "parent": "" if bpr is None else str(getattr(bpr, "name", "?")),
                            "header": str(getattr(back, "header", "")), "exiting": str(getattr(back, "exiting", "")),
                            "jt": [str(x) for x in getattr(back, "_jump_targets", ())]}
                walk(b.subregion, name, depth + 1)

    walk(scfg, root, 0)
    return {
        "H": H,
        "ord": order,
        "root": root,
        "dup": dup,
        "bp": bp,
        "ng": dict(scfg.name_gen.kinds),
    }


def canon(state: Dict[str, Any]) -> str:
    import json

    return json.dumps(state, sort_keys=True, separators=(",", ":"))
