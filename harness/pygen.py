"""Generated source programs (domains S and P, DESIGN 6.1).

A program is built as our own small tree, from which BOTH the Python source text and the node table for
PySem.tla are produced (so the specification never depends on Python's parser).  Every data value is opaque:
    t(k)            external call returning a fresh opaque value
    ev(k, args...)  external call (records a call), returns a fresh opaque value
    it(k)           external call returning an oracle-sized list of fresh opaque values
Every decision is the oracle's.  Features used by a program are recorded (feature switches of DESIGN 6.1).
"""
from __future__ import annotations

import random
from typing import Any, Dict, List, Optional, Set, Tuple

VARS = ["x", "y", "z"]
PARAMS = ["a", "b", "c"]


class Node:
    def __init__(self, k: str, **kw: Any) -> None:
        self.k = k
        self.__dict__.update(kw)


class Gen:
    def __init__(self, rng: random.Random, feats: Set[str], max_depth: int = 3, max_stmts: int = 4) -> None:
        self.rng = rng
        self.feats = feats
        self.max_depth = max_depth
        self.max_stmts = max_stmts
        self.k = 0
        self.used: Set[str] = set()

    # ------------------------------------------------------------- expressions
    def fresh(self) -> int:
        self.k += 1
        return self.k

    def atom(self) -> Node:
        r = self.rng.random()
        if r < 0.45:
            return Node("t", arg=self.fresh())
        if r < 0.85:
            return Node("name", id=self.rng.choice(PARAMS + VARS[:2]))
        return Node("name", id=self.rng.choice(PARAMS))

    def value(self, depth: int = 0) -> Node:
        """An expression in value position (right of =, return, call argument)."""
        r = self.rng.random()
        opts = []
        if "boolop_value" in self.feats and depth < 2:
            opts.append("boolop")
        if "binop" in self.feats and depth < 2:
            opts.append("binop")
        if "unary" in self.feats and depth < 2:
            opts.append("neg")
        if "call_value" in self.feats and depth < 2:
            opts.append("ev")
        if "cmp_value" in self.feats and depth < 2:
            opts.append("cmp")
        if "attr_value" in self.feats and depth < 2:
            opts.append("attr")
        if "boolop_inline" in self.feats and depth < 2:
            opts.append("subscr")
        if opts and r < 0.5:
            return self.compound(self.rng.choice(opts), depth)
        if r > 0.93:
            self.used.add("const")
            return Node("const", c=self.rng.choice(["None", "0", "1"]))
        return self.atom()

    def compound(self, kind: str, depth: int) -> Node:
        self.used.add({"boolop": "boolop", "binop": "binop", "neg": "unary", "ev": "call_value", "cmp": "cmp", "attr": "attr", "subscr": "subscr", "not": "not"}[kind])
        if kind == "boolop":
            n = 2
            if "boolop_multi" in self.feats and self.rng.random() < 0.5:
                n = self.rng.choice([3, 3, 4, 5])
                self.used.add("boolop_multi")
            return Node("boolop", op=self.rng.choice(["and", "or"]), vs=[self.operand(depth + 1) for _ in range(n)])
        if kind == "binop":
            return Node("binop", l=self.operand(depth + 1), r=self.operand(depth + 1))
        if kind == "neg":
            return Node("neg", e=self.inline_operand(depth + 1))
        if kind == "ev":
            return Node("ev", arg=self.fresh(), args=[self.operand(depth + 1) for _ in range(self.rng.randint(0, 2))])
        if kind == "cmp":
            n = 1
            if "chain_cmp" in self.feats and self.rng.random() < 0.4:
                n = 2
                self.used.add("chain_cmp")
            return Node("cmp", l=self.operand(depth + 1), rs=[self.operand(depth + 1) for _ in range(n)])
        if kind == "attr":
            return Node("attr", e=self.inline_operand(depth + 1))
        if kind == "subscr":
            return Node("subscr", e=self.inline_operand(depth + 1), i=self.inline_operand(depth + 1))
        if kind == "not":
            return Node("not", e=self.inline_operand(depth + 1))
        raise ValueError(kind)

    def inline_operand(self, depth: int) -> Node:
        """Operand of an operator the front end does NOT look into (unary minus, not, attribute base, subscript base / index): an and/or
        written there stays an ordinary Python expression, so evaluation order must be exactly Python's (feature boolop_inline; no
        known finding applies to it)."""
        if "boolop_inline" in self.feats and self.rng.random() < 0.45:
            self.used.add("boolop_inline")
            return Node("boolop", op=self.rng.choice(["and", "or"]), vs=[self.atom(), self.atom()])
        return self.operand(depth)

    def operand(self, depth: int) -> Node:
        """Operand of an operator / call: an atom, or (feature boolop_in_operand) an and/or, or a nested compound."""
        r = self.rng.random()
        if "boolop_in_operand" in self.feats and depth < 3 and r < 0.3:
            self.used.add("boolop_in_operand")
            return Node("boolop", op=self.rng.choice(["and", "or"]), vs=[self.atom(), self.atom()])
        if depth < 2 and r < 0.45:
            v = self.value(depth)
            if v.k == "const":
                return self.atom()
            if has_boolop(v):
                if "boolop_in_operand" not in self.feats:
                    return self.atom()
                self.used.add("boolop_in_operand")
            return v
        return self.atom()

    def test(self) -> Node:
        """An expression in test position of if / while."""
        shapes = ["name", "cmp"]
        for f, s in (("boolop_test", "boolop"), ("test_call", "ev"), ("test_not", "not"), ("test_attr", "attr"), ("test_subscr", "subscr"), ("test_t", "t")):
            if f in self.feats:
                shapes.append(s)
        s = self.rng.choice(shapes)
        if s == "name":
            return Node("name", id=self.rng.choice(PARAMS + VARS[:1]))
        if s == "t":
            self.used.add("test_t")
            return Node("t", arg=self.fresh())
        if s == "cmp":
            return Node("cmp", l=self.atom(), rs=[self.atom()])
        if s == "boolop":
            self.used.add("boolop_test")
            n = self.rng.choice([3, 4, 4, 5]) if ("boolop_multi" in self.feats and self.rng.random() < 0.4) else 2
            vs = []
            for _ in range(n):
                r = self.rng.random()
                if r < 0.25 and "boolop_nested" in self.feats:
                    self.used.add("boolop_nested")
                    vs.append(Node("boolop", op=self.rng.choice(["and", "or"]), vs=[self.atom(), self.atom()]))
                elif r < 0.5:
                    vs.append(Node("cmp", l=self.atom(), rs=[self.atom()]))
                else:
                    vs.append(self.atom())
            return Node("boolop", op=self.rng.choice(["and", "or"]), vs=vs)
        self.used.add({"ev": "test_call", "not": "test_not", "attr": "test_attr", "subscr": "test_subscr"}[s])
        return self.compound(s, 1)

    # -------------------------------------------------------------- statements
    def simple(self) -> Node:
        r = self.rng.random()
        if r < 0.5:
            return Node("assign", t=self.rng.choice(VARS), v=self.value())
        if r < 0.6 and "aug" in self.feats:
            self.used.add("aug")
            v = self.value()
            if has_boolop(v):      # the target of an in-place operator is read before its right operand
                if "boolop_in_operand" not in self.feats:
                    v = self.atom()
                else:
                    self.used.add("boolop_in_operand")
            return Node("aug", t=self.rng.choice(VARS[:2]), v=v)
        if r < 0.9:
            return Node("expr", v=Node("ev", arg=self.fresh(), args=[self.operand(1) for _ in range(self.rng.randint(0, 2))]))
        return Node("pass")

    def suite(self, depth: int, in_loop: bool, n: Optional[int] = None) -> List[Node]:
        n = self.rng.randint(1, self.max_stmts) if n is None else n
        out: List[Node] = []
        for i in range(n):
            r = self.rng.random()
            last = i == n - 1
            if depth < self.max_depth and r < 0.45:
                out.append(self.compound_stmt(depth, in_loop))
            elif last and r < 0.62:
                out.append(self.terminator(in_loop))
                if "dead_code" in self.feats and self.rng.random() < 0.5:
                    self.used.add("dead_code")
                    out.append(self.simple())
            else:
                out.append(self.simple())
        return out

    def terminator(self, in_loop: bool) -> Node:
        r = self.rng.random()
        if in_loop and r < 0.35:
            return Node("break")
        if in_loop and r < 0.6:
            return Node("continue")
        if r < 0.9:
            return Node("return", v=self.value())
        return Node("return", v=None)

    def compound_stmt(self, depth: int, in_loop: bool) -> Node:
        kinds = ["if", "if", "while"]
        if "for" in self.feats:
            kinds.append("for")
        k = self.rng.choice(kinds)
        if k == "if":
            body = self.suite(depth + 1, in_loop)
            r = self.rng.random()
            if r < 0.35:
                orelse: List[Node] = []
            elif r < 0.5:   # elif
                orelse = [Node("if", test=self.test(), body=self.suite(depth + 1, in_loop), orelse=self.suite(depth + 1, in_loop) if self.rng.random() < 0.5 else [])]
            else:
                orelse = self.suite(depth + 1, in_loop)
            if "empty_arms" in self.feats and self.rng.random() < 0.25:
                self.used.add("empty_arms")
                body = [Node("pass")]
                if self.rng.random() < 0.6:
                    orelse = [Node("pass")] if self.rng.random() < 0.5 else []
            return Node("if", test=self.test(), body=body, orelse=orelse)
        if k == "while":
            orelse = []
            if "loop_else" in self.feats and self.rng.random() < (0.7 if in_loop else 0.35):
                self.used.add("loop_else")
                orelse = self.suite(depth + 1, in_loop)
                if in_loop and self.rng.random() < 0.5:      # break / continue of the ENCLOSING loop inside an else clause
                    orelse = orelse[:-1] + [self.terminator(True)]
            return Node("while", test=self.test(), body=self.suite(depth + 1, True), orelse=orelse)
        self.used.add("for")
        orelse = []
        if "for_else" in self.feats and self.rng.random() < (0.7 if in_loop else 0.35):
            self.used.add("for_else")
            orelse = self.suite(depth + 1, in_loop)
            if in_loop and self.rng.random() < 0.5:
                orelse = orelse[:-1] + [self.terminator(True)]
        return Node("for", t=self.rng.choice(VARS), iter=Node("it", arg=self.fresh()), body=self.suite(depth + 1, True), orelse=orelse)

    def program(self) -> "Program":
        body = self.suite(0, False, n=self.rng.randint(1, self.max_stmts))
        if "loop_first" in self.feats and self.rng.random() < 0.5:
            self.used.add("loop_first")
            body = [Node("while", test=self.test(), body=self.suite(1, True), orelse=[])] + body
        if self.rng.random() < 0.7:
            body.append(Node("return", v=self.value()))
        if "live_loop_var" in self.feats:
            pass
        return Program(body, sorted(self.used | {"core"}))


def has_boolop(n: Any) -> bool:
    if not isinstance(n, Node):
        return False
    if n.k == "boolop":
        return True
    for v in n.__dict__.values():
        if isinstance(v, Node) and has_boolop(v):
            return True
        if isinstance(v, list) and any(has_boolop(x) for x in v):
            return True
    return False


# -------------------------------------------------------------------- rendering
def src_expr(n: Node, prec: int = 0) -> str:
    k = n.k
    if k == "t":
        return "t(%d)" % n.arg
    if k == "name":
        return n.id
    if k == "const":
        return n.c
    if k == "it":
        return "it(%d)" % n.arg
    if k == "not":
        return "(not %s)" % src_expr(n.e)
    if k == "boolop":
        return "(" + (" %s " % n.op).join(src_expr(v) for v in n.vs) + ")"
    if k == "cmp":
        return "(" + " < ".join([src_expr(n.l)] + [src_expr(r) for r in n.rs]) + ")"
    if k == "binop":
        return "(%s + %s)" % (src_expr(n.l), src_expr(n.r))
    if k == "neg":
        return "(-%s)" % src_expr(n.e)
    if k == "ev":
        return "ev(%s)" % ", ".join([str(n.arg)] + [src_expr(a) for a in n.args])
    if k == "attr":
        return "%s.at" % src_expr(n.e)
    if k == "subscr":
        return "%s[%s]" % (src_expr(n.e), src_expr(n.i))
    raise ValueError(k)


def src_stmts(ss: List[Node], ind: int) -> List[str]:
    pad = "    " * ind
    out: List[str] = []
    if not ss:
        return [pad + "pass"]
    for s in ss:
        k = s.k
        if k == "assign":
            out.append("%s%s = %s" % (pad, s.t, src_expr(s.v)))
        elif k == "aug":
            out.append("%s%s += %s" % (pad, s.t, src_expr(s.v)))
        elif k == "expr":
            out.append(pad + src_expr(s.v))
        elif k == "return":
            out.append(pad + ("return" if s.v is None else "return " + src_expr(s.v)))
        elif k in ("pass", "break", "continue"):
            out.append(pad + k)
        elif k == "if":
            out.append("%sif %s:" % (pad, src_expr(s.test)))
            out += src_stmts(s.body, ind + 1)
            if s.orelse:
                out.append(pad + "else:")
                out += src_stmts(s.orelse, ind + 1)
        elif k == "while":
            out.append("%swhile %s:" % (pad, src_expr(s.test)))
            out += src_stmts(s.body, ind + 1)
            if s.orelse:
                out.append(pad + "else:")
                out += src_stmts(s.orelse, ind + 1)
        elif k == "for":
            out.append("%sfor %s in %s:" % (pad, s.t, src_expr(s.iter)))
            out += src_stmts(s.body, ind + 1)
            if s.orelse:
                out.append(pad + "else:")
                out += src_stmts(s.orelse, ind + 1)
        elif k == "raw":
            out += [pad + ln for ln in s.text.split("\n")]
        else:
            raise ValueError(k)
    return out


class Program:
    def __init__(self, body: List[Node], feats: List[str], params: Optional[List[str]] = None) -> None:
        self.body = body
        self.feats = feats
        self.params = list(PARAMS) if params is None else params

    def source(self, name: str = "f") -> str:
        return "def %s(%s):\n%s\n" % (name, ", ".join(self.params), "\n".join(src_stmts(self.body, 1)))

    def table(self) -> Dict[str, Any]:
        """Node table for PySem.tla: N is a sequence of records, ids are 1-based indices."""
        N: List[Dict[str, Any]] = []

        def add(rec: Dict[str, Any]) -> int:
            N.append(rec)
            return len(N)

        def ex(n: Optional[Node]) -> int:
            if n is None:
                return 0
            k = n.k
            if k in ("t", "it"):
                return add({"k": k, "arg": n.arg})
            if k == "name":
                return add({"k": "name", "id": n.id})
            if k == "const":
                return add({"k": "const", "c": n.c})
            if k in ("not", "neg", "attr"):
                return add({"k": k, "e": ex(n.e)})
            if k == "boolop":
                vs = [ex(v) for v in n.vs]
                return add({"k": "boolop", "op": n.op, "vs": vs})
            if k == "cmp":
                l = ex(n.l)
                rs = [ex(r) for r in n.rs]
                return add({"k": "cmp", "l": l, "rs": rs})
            if k == "binop":
                l = ex(n.l)
                r = ex(n.r)
                return add({"k": "binop", "l": l, "r": r})
            if k == "ev":
                args = [ex(a) for a in n.args]
                return add({"k": "ev", "arg": n.arg, "args": args})
            if k == "subscr":
                e = ex(n.e)
                i = ex(n.i)
                return add({"k": "subscr", "e": e, "i": i})
            raise ValueError(k)

        def st(s: Node) -> int:
            k = s.k
            if k in ("assign", "aug"):
                return add({"k": k, "t": s.t, "v": ex(s.v)})
            if k == "expr":
                return add({"k": "expr", "v": ex(s.v)})
            if k == "return":
                return add({"k": "return", "v": ex(s.v)})
            if k in ("pass", "break", "continue"):
                return add({"k": k})
            if k in ("if", "while"):
                t = ex(s.test)
                b = [st(x) for x in s.body]
                o = [st(x) for x in s.orelse]
                return add({"k": k, "test": t, "body": b, "orelse": o})
            if k == "for":
                it = ex(s.iter)
                b = [st(x) for x in s.body]
                o = [st(x) for x in s.orelse]
                return add({"k": "for", "t": s.t, "iter": it, "body": b, "orelse": o})
            raise ValueError(k)

        body = [st(s) for s in self.body]
        return {"params": self.params, "body": body, "N": N}


FEATURES = ["aug", "loop_else", "for", "for_else", "boolop_test", "boolop_value", "boolop_multi", "test_call", "test_not", "test_attr",
            "test_subscr", "test_t", "boolop_in_operand", "boolop_nested", "chain_cmp", "binop", "unary", "call_value", "cmp_value", "attr_value", "dead_code",
            "empty_arms", "loop_first"]
# features whose divergences are recorded as known findings (redesign needed) are kept out of the default mix
DEFAULT_OFF = {"boolop_in_operand", "boolop_nested"}


def generate(seed: int, count: int, feats: Optional[Set[str]] = None, max_depth: int = 3, max_stmts: int = 3) -> List[Program]:
    rng = random.Random(seed * 7907 + 13)
    out: List[Program] = []
    seen = set()
    tries = 0
    while len(out) < count and tries < count * 20:
        tries += 1
        if feats is None:
            fs = {f for f in FEATURES if rng.random() < 0.35 and f not in DEFAULT_OFF}
            if rng.random() < 0.12:      # a small share of programs exercises the documented evaluation-order limitation
                fs |= {"boolop_in_operand", "boolop_nested", "boolop_test", "boolop_value"}
            elif rng.random() < 0.25:    # and/or inside operators the front end leaves alone (must behave exactly like Python)
                fs |= {"boolop_inline", "test_subscr", "test_attr", "test_not", "unary"}
        else:
            fs = set(feats)
        p = Gen(rng, fs, max_depth=rng.randint(1, max_depth), max_stmts=rng.randint(1, max_stmts)).program()
        src = p.source()
        if src in seen:
            continue
        seen.add(src)
        out.append(p)
    return out


def programs_for_graphs(seed: int, count: int) -> List[str]:
    """Source texts for the restructure-behaviour domain S (graphs built by the AST front end)."""
    return [p.source() for p in generate(seed + 101, count)]


# ------------------------------------------------------------------------------------------------------------
# Size-bounded EXHAUSTIVE generation of control skeletons (DESIGN 6.1): every program with at most `budget`
# compound statements, nesting <= depth, whose tests are oracle calls and whose statements are call markers.
def enumerate_control(budget: int = 3, depth: int = 3, with_for: bool = True, test_shape: str = "call", bare_tail: bool = False) -> List["Program"]:
    counter = [0]

    def mark() -> Node:
        counter[0] += 1
        return Node("expr", v=Node("ev", arg=counter[0], args=[]))

    def test() -> Node:
        counter[0] += 1
        if test_shape in ("and", "or"):      # every if / while test is a two-operand and/or of oracle calls (desugared into blocks)
            counter[0] += 1
            return Node("boolop", op=test_shape, vs=[Node("t", arg=counter[0] - 1), Node("t", arg=counter[0])])
        return Node("t", arg=counter[0])

    def terms(in_loop: bool) -> List[Optional[str]]:
        return [None, "return"] + (["break", "continue"] if in_loop else [])

    def suites(b: int, d: int, in_loop: bool) -> List[Tuple[Any, int]]:
        """All suite shapes using at most b compound statements: list of (shape, used)."""
        out: List[Tuple[Any, int]] = []
        for term in terms(in_loop):
            out.append((("S", [], term), 0))
            if d > 0 and b > 0:
                for c, u in compounds(b, d, in_loop):
                    out.append((("S", [c], term), u))
                    if b - u > 0 and term is None:
                        for c2, u2 in compounds(b - u, d, in_loop):
                            out.append((("S", [c, c2], None), u + u2))
        return out

    def compounds(b: int, d: int, in_loop: bool) -> List[Tuple[Any, int]]:
        out: List[Tuple[Any, int]] = []
        kinds = ["if", "while"] + (["for"] if with_for else [])
        for k in kinds:
            body_loop = in_loop if k == "if" else True
            for body, ub in suites(b - 1, d - 1, body_loop):
                out.append(((k, body, None), 1 + ub))
                for orelse, uo in suites(b - 1 - ub, d - 1, in_loop):
                    if orelse[1] == [] and orelse[2] is None:
                        continue        # an else clause that only marks is covered by the shapes with a terminator
                    out.append(((k, body, orelse), 1 + ub + uo))
        return out

    def build_suite(shape: Any) -> List[Node]:
        _, comps, term = shape
        out: List[Node] = [mark()]
        for j, c in enumerate(comps):
            out.append(build_compound(c))
            if not (bare_tail and j == len(comps) - 1 and term is None):
                out.append(mark())          # bare_tail: the suite ENDS in its last compound statement
        if term == "return":
            counter[0] += 1
            out.append(Node("return", v=Node("t", arg=counter[0])))
        elif term is not None:
            out.append(Node(term))
        return out

    def build_compound(c: Any) -> Node:
        k, body, orelse = c
        if k == "for":
            counter[0] += 1
            it = Node("it", arg=counter[0])
            return Node("for", t="x", iter=it, body=build_suite(body), orelse=build_suite(orelse) if orelse else [])
        t = test()
        return Node(k, test=t, body=build_suite(body), orelse=build_suite(orelse) if orelse else [])

    progs: List[Program] = []
    for shape, used in suites(budget, depth, False):
        counter[0] = 0
        body = build_suite(shape)
        feats = {"core", "enumerated"} | ({"boolop_test"} if test_shape in ("and", "or") else set())
        src_probe = Program(body, []).source()
        if "for " in src_probe:
            feats.add("for")
        if "else" in src_probe:
            feats.add("loop_else")
        progs.append(Program(body, sorted(feats), params=[]))
    return progs
