"""Instrumented runtime for C07 / C08: opaque values whose every explicit operation asks a scripted oracle."""
from __future__ import annotations

from typing import Any, List, Sequence


class ScriptExhausted(BaseException):
    pass


class OracleError(Exception):
    pass


class StepLimit(BaseException):
    pass


def vid(o: Any) -> str:
    if isinstance(o, V):
        return str(o.id)
    if o is None:
        return "None"
    if o is True:
        return "True"
    if o is False:
        return "False"
    if isinstance(o, int):
        return str(o)
    if isinstance(o, list):
        return "list"
    return "?" + type(o).__name__


class Oracle:
    def __init__(self, answers: Sequence[str]) -> None:
        self.answers = list(answers)
        self.i = 0
        self.events: List[List[str]] = []

    def raw(self, what: Sequence[str]) -> str:
        if self.i >= len(self.answers):
            raise ScriptExhausted()
        x = self.answers[self.i]
        self.i += 1
        self.events.append(list(what) + [x])
        return x

    def ask(self, what: Sequence[str]) -> "V":
        x = self.raw(what)
        if x == "R":
            raise OracleError()
        return V(self, len(self.events), x == "T")


class V:
    __slots__ = ("orc", "id", "tr")

    def __init__(self, orc: Oracle, ident: int, tr: bool) -> None:
        self.orc = orc
        self.id = ident
        self.tr = tr

    def __bool__(self) -> bool:          # testing truthiness is not an event
        return self.tr

    def __lt__(self, o: Any) -> Any:
        return self.orc.ask(("cmp", vid(self), vid(o)))

    def __gt__(self, o: Any) -> Any:      # only reached as the reflection of  o < self
        return self.orc.ask(("cmp", vid(o), vid(self)))

    def __add__(self, o: Any) -> Any:
        return self.orc.ask(("op", vid(self), vid(o)))

    def __radd__(self, o: Any) -> Any:
        return self.orc.ask(("op", vid(o), vid(self)))

    def __iadd__(self, o: Any) -> Any:
        return self.orc.ask(("iop", vid(self), vid(o)))

    def __neg__(self) -> Any:
        return self.orc.ask(("neg", vid(self)))

    def __getattr__(self, name: str) -> Any:
        if name == "at":
            return self.orc.ask(("attr", vid(self)))
        raise AttributeError(name)

    def __getitem__(self, i: Any) -> Any:
        return self.orc.ask(("item", vid(self), vid(i)))

    def __eq__(self, o: Any) -> Any:      # comparisons with the reserved sentinel fall back to identity
        return NotImplemented

    def __ne__(self, o: Any) -> Any:
        return NotImplemented

    def __hash__(self) -> int:
        return id(self)

    def __repr__(self) -> str:
        return "V%d" % self.id


def externals(orc: Oracle) -> dict:
    def t(k: int) -> Any:
        return orc.ask(("t", str(k)))

    def ev(k: int, *args: Any) -> Any:
        return orc.ask(("ev", str(k)) + tuple(vid(a) for a in args))

    def it(k: int) -> Any:
        x = orc.raw(("it", str(k)))
        if x == "R":
            raise OracleError()
        n = int(x)
        return [orc.ask(("elem", str(j))) for j in range(n)]

    return {"t": t, "ev": ev, "it": it}


def params(orc: Oracle, names: Sequence[str]) -> List[V]:
    out = []
    for n in names:
        x = orc.raw(("param", n))
        out.append(V(orc, len(orc.events), x == "T"))
    return out


def outcome_of_exception(e: BaseException) -> List[str]:
    if isinstance(e, OracleError):
        return ["exc", "OracleError"]
    if isinstance(e, NameError):       # UnboundLocalError is a NameError
        return ["exc", "Unbound"]
    return ["exc", type(e).__name__]
