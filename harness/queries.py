"""C13 driver: call the library's graph queries on real SCFG objects and record the results."""
from __future__ import annotations

import itertools
import json
import random
from typing import Any, Dict, Iterator, List, Sequence, Tuple

from numba_scfg.core import transformations as tr
from numba_scfg.core.datastructures.basic_block import BasicBlock
from numba_scfg.core.datastructures.scfg import SCFG


def seqs_upto(alpha: Sequence[str], d: int) -> List[Tuple[str, ...]]:
    out: List[Tuple[str, ...]] = []
    for k in range(d + 1):
        out += list(itertools.product(alpha, repeat=k))
    return out


def q_domain(n: int, d: int) -> Iterator[Dict[str, List[str]]]:
    nodes = [str(i) for i in range(n)]
    ch = seqs_upto(nodes + ["x"], d)
    for combo in itertools.product(ch, repeat=n):
        yield {nodes[i]: list(combo[i]) for i in range(n)}


def random_graph(rng: random.Random, n: int, d: int, with_be: bool) -> Tuple[Dict[str, List[str]], Dict[str, List[str]]]:
    nodes = [str(i) for i in range(n)]
    g, b = {}, {}
    for u in nodes:
        k = rng.randint(0, d)
        g[u] = [rng.choice(nodes + ["x"]) if rng.random() < 0.9 else "y" for _ in range(k)]
        b[u] = []
        if with_be and g[u] and rng.random() < 0.25:
            b[u] = [rng.choice(g[u])]
    return g, b


def _name(e: BaseException) -> str:
    return type(e).__name__


def run_queries(g: Dict[str, List[str]], b: Dict[str, List[str]] | None = None, plain: bool = True, max_subsets: int = 64, rng: random.Random | None = None) -> Dict[str, Any]:
    b = b or {u: [] for u in g}
    scfg = SCFG(graph={u: BasicBlock(name=u, _jump_targets=tuple(g[u]), backedges=tuple(b[u])) for u in g})
    nodes = list(g)
    rec: Dict[str, Any] = {"g": g, "b": b, "plain": plain, "order": list(scfg.graph)}
    rec["scc"] = [sorted(c) for c in scfg.compute_scc()]
    try:
        rec["head"] = scfg.find_head()
    except AssertionError:
        rec["head"] = "!AssertionError"
    subsets: List[Tuple[str, ...]] = []
    for k in range(len(nodes) + 1):
        subsets += list(itertools.combinations(nodes, k))
    if len(subsets) > max_subsets:
        assert rng is not None
        subsets = rng.sample(subsets, max_subsets)
    he, ee = [], []
    for s in subsets:
        try:
            h, e = scfg.find_headers_and_entries(set(s))
            he.append({"s": list(s), "h": list(h), "e": list(e), "exc": ""})
        except AssertionError as ex:
            he.append({"s": list(s), "h": [], "e": [], "exc": _name(ex)})
        x, t = scfg.find_exiting_and_exits(set(s))
        ee.append({"s": list(s), "x": list(x), "t": list(t)})
    rec["he"], rec["ee"] = he, ee
    names = nodes + sorted({t for u in g for t in g[u] if t not in g})
    pairs = [(a, z) for a in nodes for z in names]
    if len(pairs) > 200:
        assert rng is not None
        pairs = rng.sample(pairs, 200)
    rec["reach"] = [[a, z, bool(scfg.is_reachable_dfs(a, z))] for a, z in pairs]
    for key, fn in (("doms", tr._doms), ("pdoms", tr._post_doms)):
        try:
            d = fn(scfg)
            rec[key] = {k: sorted(v) for k, v in d.items()}
            rec[key + "exc"] = ""
            try:
                rec["i" + key] = dict(tr._imm_doms(d))
                rec["i" + key + "exc"] = ""
            except Exception as ex:
                rec["i" + key] = {}
                rec["i" + key + "exc"] = _name(ex)
        except RuntimeError as ex:
            rec[key], rec[key + "exc"] = {}, _name(ex)
            rec["i" + key], rec["i" + key + "exc"] = {}, "skipped"
    return rec


def hier_cases(g: Dict[str, List[str]], rng: random.Random, max_subsets: int = 10) -> List[Dict[str, Any]]:
    """Restructure a closed CFG and ask find_headers_and_entries / find_exiting_and_exits of the SUB-GRAPH of every region (any depth)."""
    from numba_scfg.core.datastructures.basic_block import RegionBlock

    from .project import project

    scfg = SCFG(graph={u: BasicBlock(name=u, _jump_targets=tuple(g[u])) for u in g})
    try:
        scfg.restructure()
    except Exception:
        return []
    st = project(scfg)
    out: List[Dict[str, Any]] = []

    def walk(graph: SCFG) -> None:
        for name, b in list(graph.graph.items()):
            if isinstance(b, RegionBlock) and b.subregion is not None:
                sub = b.subregion
                names = list(sub.graph)
                try:
                    head = sub.find_head()
                except AssertionError:
                    head = names[0]
                subsets = [(head,), tuple(names)] + [(n,) for n in names]
                for _ in range(3):
                    k = rng.randint(1, max(1, len(names)))
                    subsets.append(tuple(rng.sample(names, k)))
                seen = set()
                for s_ in subsets[:max_subsets]:
                    if frozenset(s_) in seen or not s_:
                        continue
                    seen.add(frozenset(s_))
                    rec = {"H": st["H"], "root": st["root"], "lvl": str(name), "s": list(s_), "h": [], "e": [], "heexc": "", "x": [], "t": []}
                    try:
                        h, e = sub.find_headers_and_entries(set(s_))
                        rec["h"], rec["e"] = list(h), list(e)
                    except AssertionError as ex:
                        rec["heexc"] = _name(ex)
                    x, t = sub.find_exiting_and_exits(set(s_))
                    rec["x"], rec["t"] = list(x), list(t)
                    out.append(rec)
                walk(sub)

    walk(scfg)
    return out
