"""Restructure behaviours: assemble input domains (X, R, B, S), run the real
code over them in worker processes with tracing on, and write sharded JSON
files for TLC (DESIGN sections 6, 8 'shared by C01-C06, C15-C17')."""
from __future__ import annotations

import json
import multiprocessing as mp
import os
import random
import time
from typing import Any, Callable, Dict, List, Optional, Tuple

from . import corpus, domains
from .project import PayloadIds
from .tlc import WORK

DATA = os.path.join(os.path.dirname(os.path.abspath(__file__)), "data")


# ---------------------------------------------------------------------------
# input descriptors (json-able) and their builders
# ---------------------------------------------------------------------------

def closed5_canon() -> List[domains.Graph]:
    p = os.path.join(DATA, "closed5_canon.json")
    with open(p) as f:
        return [tuple(tuple(s) for s in g) for g in json.load(f)]


def domain_inputs(tier: str, seed: int, doms: str = "XRBS", scale: float = 1.0) -> List[Dict[str, Any]]:
    """List of input descriptors for the requested domains."""
    out: List[Dict[str, Any]] = []
    quick = tier == "quick"
    if "X" in doms:
        for n in (1, 2, 3, 4):
            for g in domains.closed_cfgs(n):
                out.append({"dom": "X", "g": [list(s) for s in g]})
        if quick:
            c5 = closed5_canon()
            rng = random.Random(seed * 7919 + 5)
            k = max(1, int(1200 * scale))
            pick = c5 if k >= len(c5) else rng.sample(c5, k)
            for g in pick:
                out.append({"dom": "X5", "g": [list(s) for s in g]})
        else:
            for g in closed5_canon():
                out.append({"dom": "X5", "g": [list(s) for s in g]})
    if "R" in doms:
        cnt = int((300 if quick else 5000) * scale)
        for g in domains.random_domain(seed * 104729 + 11, cnt, 6, 12 if quick else 18):
            out.append({"dom": "R", "g": [list(s) for s in g]})
        if quick:
            # a few larger ones in the quick tier too (block names beyond "9", deeper nesting)
            for g in domains.random_domain(seed * 104729 + 12, max(1, int(30 * scale)), 13, 18):
                out.append({"dom": "R", "g": [list(s) for s in g]})
    if "L" in doms:
        # small closed CFGs under names whose STRING order differs from the numeric one, that are prefixes of each other, or that
        # mix cases / underscores: sorted() over names is how the library makes its choices reproducible
        pool = ["10", "9", "100", "1", "2", "20", "02", "a", "B", "_x", "a_1", "a1", "A"]
        rngl = random.Random(seed * 6007 + 41)
        src = [g for n in (3, 4) for g in domains.closed_cfgs(n)] + closed5_canon()
        for g in rngl.sample(src, min(len(src), int((300 if quick else 3000) * scale))):
            names = rngl.sample(pool, len(g))
            out.append({"dom": "N", "named": {names[u]: [names[v] for v in g[u]] for u in range(len(g))}, "lex": True})
    if "M" in doms:
        from . import manual

        out += manual.inputs()
    if "V" in doms:
        # histories in which the loop and branch stages are driven through the sub-graph objects of the top-level regions
        rngv = random.Random(seed * 911 + 3)
        src = [g for g in domains.closed_cfgs(4)] + closed5_canon() + list(domains.random_domain(seed * 5 + 1, 200, 6, 10))
        for g in rngv.sample(src, min(len(src), int((300 if quick else 3000) * scale))):
            out.append({"dom": "R", "g": [list(s) for s in g], "via_subgraphs": True})
    if "K" in doms:
        for g in domains.control_heavy_domain(seed * 15485863 + 29, int((250 if quick else 2500) * scale), pool=6000 if quick else 60000):
            out.append({"dom": "K", "g": [list(s) for s in g]})
    if "B" in doms:
        lim = int((150 if quick else 100000) * scale)
        fns = corpus.corpus(limit=None)
        if quick:
            rng = random.Random(seed * 31 + 3)
            fns = rng.sample(fns, min(lim, len(fns)))
        for ident, _ in fns:
            out.append({"dom": "B", "fn": ident})
    if "N" in doms:
        # closed CFGs whose block names lie in the name generator's own namespace
        from .checks.c18 import namespace_inputs

        out += namespace_inputs(seed, int((120 if quick else 1000) * scale))
    if "S" in doms:
        from . import pygen

        cnt = int((150 if quick else 2000) * scale)
        for src in pygen.programs_for_graphs(seed, cnt):
            out.append({"dom": "S", "src": src})
    return out


def build(inp: Dict[str, Any], pids: PayloadIds) -> Any:
    """Build the SCFG of an input descriptor.  Returns scfg or raises."""
    from .record import build_scfg

    d = inp["dom"]
    if d in ("X", "X5", "R", "G", "K"):
        g = tuple(tuple(s) for s in inp["g"])
        return build_scfg(domains.graph_to_named(g))
    if d == "M":  # hand-made graph (harness/manual.py)
        from . import manual

        return manual.build(inp["which"])
    if d == "N":  # named graph
        return build_scfg(inp["named"], used_generator=bool(inp.get("usedgen")))
    if d == "B":
        from numba_scfg.core.datastructures.byte_flow import ByteFlow

        return ByteFlow.from_bytecode(corpus.resolve(inp["fn"])).scfg
    if d == "S":
        from numba_scfg.core.datastructures.ast_transforms import AST2SCFG

        return AST2SCFG(inp["src"])
    raise ValueError(d)


def named_closed(H: Dict[str, Any]) -> bool:
    names = sorted(H)
    idx = {n: i for i, n in enumerate(names)}
    # entry first
    preds = {n: 0 for n in names}
    for n in names:
        for t in H[n]["jt"]:
            if t not in idx:
                return False
            preds[t] += 1
    ent = [n for n in names if preds[n] == 0]
    if len(ent) != 1:
        return False
    order = [ent[0]] + [n for n in names if n != ent[0]]
    idx = {n: i for i, n in enumerate(order)}
    g = tuple(tuple(idx[t] for t in H[n]["jt"]) for n in order)
    return domains.is_closed(g)


# ---------------------------------------------------------------------------
# worker
# ---------------------------------------------------------------------------

def _compact_case(beh: Dict[str, Any], want_stages: bool, want_events: bool) -> Dict[str, Any]:
    c: Dict[str, Any] = {k: beh[k] for k in ("id", "root", "orig", "origk", "origpay", "entry")}
    c["exc"] = beh["exc"]
    c["reached"] = beh["reached"]
    if want_stages:
        c["stages"] = [{"name": nm, "H": st["H"], "dup": st["dup"], "ord": st["ord"], "ng": st["ng"], "bp": st.get("bp", {}), "hook": beh.get("hook", {}).get(nm, {})} for nm, st in beh["stages"].items()]
    if want_events:
        c["init"] = beh["init"]
        c["events"] = beh["events"]
        c["ng0"] = beh["ng0"]
        c["order"] = beh["order"]
    return c


def _worker(args: Tuple[int, List[Dict[str, Any]], str, Dict[str, Any]]) -> Dict[str, Any]:
    shard, inputs, outdir, opts = args
    import importlib
    import sys

    sys.setrecursionlimit(10000)
    from .record import record_restructure, exc_sig
    from .project import project

    hook: Optional[Callable[[str, Any], Any]] = None
    if opts.get("hook"):
        mod, fn = opts["hook"].split(":")
        hook = getattr(importlib.import_module(mod), fn)
    cases = []
    summary: List[Dict[str, Any]] = []
    import signal

    class _Timeout(BaseException):
        pass

    def _alarm(*a: Any) -> None:
        raise _Timeout()

    signal.signal(signal.SIGALRM, _alarm)
    cap = int(opts.get("cap", 60))
    for inp in inputs:
        pids = PayloadIds()
        t0 = time.time()
        signal.alarm(cap)
        try:
            _one(inp, pids, t0, opts, hook, cases, summary)
        except _Timeout:
            summary.append({"id": inp, "build": "timeout", "exc": "Timeout", "wall": cap})
        finally:
            signal.alarm(0)
    path = os.path.join(outdir, "cases-%02d.json" % shard)
    heavy_path = ""
    thr = int(opts.get("heavy") or 0)
    if thr:
        # cases whose hierarchy is large go to a separate file (explored later with many TLC workers)
        hv = [i for i, c in enumerate(cases) if max([len(st["H"]) for st in c.get("stages", [])] + [0]) > thr]
        if hv:
            heavy_cases = [cases[i] for i in hv]
            keep = [c for i, c in enumerate(cases) if i not in set(hv)]
            remap = {}
            for new, c in enumerate(keep):
                remap[id(c)] = new + 1
            for s_ in summary:
                if s_.get("build") == "ok":
                    c = cases[s_["case"] - 1]
                    if id(c) in remap:
                        s_["case"] = remap[id(c)]
                    else:
                        s_["heavy"] = heavy_cases.index(c) + 1
                        s_["case"] = 0
            cases = keep
            heavy_path = os.path.join(outdir, "heavy-%02d.json" % shard)
            with open(heavy_path, "w") as f:
                json.dump(heavy_cases, f, separators=(",", ":"))
    derived: Dict[str, Any] = {}
    for key, spec in (opts.get("derive") or {}).items():
        mod, fn = spec.split(":")
        f_ = getattr(importlib.import_module(mod), fn)
        recs, index = [], []
        for ci, c in enumerate(cases):
            for r in f_(c):
                recs.append(r)
                index.append(ci + 1)
        dp = os.path.join(outdir, "%s-%02d.json" % (key, shard))
        with open(dp, "w") as f:
            json.dump(recs, f, separators=(",", ":"))
        derived[key] = {"path": dp, "n": len(recs), "index": index}
    if opts.get("drop_cases"):
        cases_out: List[Any] = []
    else:
        cases_out = cases
    with open(path, "w") as f:
        json.dump(cases_out, f, separators=(",", ":"))
    return {"shard": shard, "path": path, "ncases": len(cases), "summary": summary, "derived": derived, "heavy_path": heavy_path}


def _one(inp: Dict[str, Any], pids: PayloadIds, t0: float, opts: Dict[str, Any], hook: Any, cases: List[Any], summary: List[Any]) -> None:
    from .record import record_restructure, exc_sig
    from .project import project

    if True:
        try:
            scfg = build(inp, pids)
        except NotImplementedError as e:
            summary.append({"id": inp, "build": "refused", "exc": exc_sig(e)})
            return
        except Exception as e:
            summary.append({"id": inp, "build": "error", "exc": exc_sig(e)})
            return
        st0 = project(scfg, pids)
        if inp.get("dom") != "M" and not named_closed(st0["H"]):
            summary.append({"id": inp, "build": "notclosed"})
            return
        beh = record_restructure(
            scfg, inp, pids,
            primitives=bool(opts.get("events", False)),
            stage_hook=(lambda nm, s: hook(nm, s, inp)) if hook else None,
            stage_states=bool(opts.get("stages", True)) or True,
            names=bool(opts.get("names", False)),
            reload_between=bool(opts.get("reload", False)) and opts.get("reload") != "fork" and bool(inp.get("reload", True)),
            fork_between=opts.get("reload") == "fork" or bool(inp.get("fork")),
            via_subgraphs=bool(inp.get("via_subgraphs")),
            default_recursion_limit=bool(inp.get("giant")),
            probe_names=bool(inp.get("probe_names")),
        )
        dt = time.time() - t0
        case = _compact_case(beh, opts.get("stages", True), opts.get("events", False))
        cases.append(case)
        nsyn = 0
        if beh["stages"].get(beh["reached"]):
            Hf = beh["stages"][beh["reached"]]["H"]
            nsyn = sum(1 for r in Hf.values() if r["k"] in ("head", "latch", "exitbranch", "branch"))
        summary.append({"id": inp, "build": "ok", "exc": beh["exc"], "reached": beh["reached"], "n": len(beh["orig"]),
                        "nblocks": len(beh["stages"].get(beh["reached"], {"H": {}})["H"]), "nbranching": nsyn, "wall": round(dt, 3),
                        "case": len(cases)})


def record_domain(
    inputs: List[Dict[str, Any]],
    outdir: str,
    jobs: int = 16,
    shards: int = 16,
    stages: bool = True,
    events: bool = False,
    hook: Optional[str] = None,
    cap: int = 60,
    derive: Optional[Dict[str, str]] = None,
    drop_cases: bool = False,
    names: bool = False,
    reload: bool = False,
    heavy: int = 0,
) -> List[Dict[str, Any]]:
    """Run the real code over `inputs` in `jobs` processes; write `shards`
    JSON files under outdir; return per-shard results (path, summaries)."""
    os.makedirs(outdir, exist_ok=True)
    shards = max(1, min(shards, len(inputs)))
    parts: List[List[Dict[str, Any]]] = [[] for _ in range(shards)]
    # big inputs first, round robin, so shards are balanced
    order = sorted(range(len(inputs)), key=lambda i: -len(inputs[i].get("g", [])))
    for j, i in enumerate(order):
        parts[j % shards].append(inputs[i])
    opts = {"stages": stages, "events": events, "hook": hook, "cap": cap, "derive": derive, "drop_cases": drop_cases, "names": names, "reload": reload, "heavy": heavy}
    tasks = [(k, parts[k], outdir, opts) for k in range(shards)]
    ctx = mp.get_context("fork")
    with ctx.Pool(min(jobs, shards)) as pool:
        res = pool.map(_worker, tasks)
    return res


def workdir(tag: str) -> str:
    d = os.path.join(WORK, "%s-%d" % (tag, os.getpid()))
    os.makedirs(d, exist_ok=True)
    return d
