"""Tracer: harness-side wrappers around the library's mutators (DESIGN 3.3) and
the driver that records restructure behaviours.

A behaviour is
  {"id", "orig": {name: [succ]}, "origk": {name: kind}, "origpay": {name: pay},
   "root", "init": H, "events": [event...], "stages": {stage: full state}}
where an event is
  {"op", "ph": "b"|"e"|"x", "lvl": region name, "args": {...}, "put": {...},
   "del": [...], "ng": {...}, "exc": ""|"Type@file:line"}
"ph" is b(egin)/e(nd) for composite operations and x for leaf operations; the
delta (put/del) is always relative to the previous event of the behaviour.
"""
from __future__ import annotations

import os
import sys
import traceback
from typing import Any, Callable, Dict, List, Optional

from numba_scfg.core import transformations as tr
from numba_scfg.core.datastructures import basic_block as bb
from numba_scfg.core.datastructures import scfg as scfg_mod
from numba_scfg.core.datastructures.scfg import SCFG

from .project import PayloadIds, project

GUARD = "NUMBA_SCFG_VERIF"

_TYPE_KIND = {
    bb.SyntheticExit: "exit",
    bb.SyntheticTail: "tail",
    bb.SyntheticReturn: "return",
    bb.SyntheticFill: "fill",
    bb.SyntheticBlock: "synth",
    bb.SyntheticHead: "head",
    bb.SyntheticAssignment: "assign",
}


def exc_sig(e: BaseException) -> str:
    tb = traceback.extract_tb(e.__traceback__)
    where = ""
    for fr in reversed(tb):
        if "numba_scfg" in fr.filename and "/tests/" not in fr.filename:
            where = "%s:%d" % (os.path.basename(fr.filename), fr.lineno)
            break
    return "%s@%s" % (type(e).__name__, where)


class Tracer:
    """Records events on one root SCFG. Install with `with Tracer(root) as t:`."""

    active: Optional["Tracer"] = None

    def __init__(self, root: SCFG, pids: Optional[PayloadIds] = None, primitives: bool = True, names: bool = False):
        self.root = root
        self.pids = pids
        self.primitives = primitives
        self.names = names
        self.events: List[Dict[str, Any]] = []
        self.last = project(root, pids)
        self.init = self.last
        self._saved: List[Any] = []

    # -- delta bookkeeping -------------------------------------------------
    def snap(self) -> Dict[str, Any]:
        cur = project(self.root, self.pids)
        old = self.last["H"]
        new = cur["H"]
        put = {n: r for n, r in new.items() if old.get(n) != r}
        dele = [n for n in old if n not in new]
        self.last = cur
        return {"put": put, "del": dele, "ng": cur["ng"], "dup": cur["dup"]}

    def log(self, op: str, ph: str, lvl: str, args: Dict[str, Any], exc: str = "") -> None:
        ev = {"op": op, "ph": ph, "lvl": lvl, "args": args, "exc": exc}
        ev.update(self.snap())
        self.events.append(ev)

    # -- wrappers -----------------------------------------------------------
    def _wrap(self, owner: Any, attr: str, op: str, leaf: bool, argf: Callable[..., Dict[str, Any]], lvlf: Callable[..., str]) -> None:
        orig = getattr(owner, attr)
        tracer = self

        def wrapper(*a: Any, **kw: Any) -> Any:
            if Tracer.active is not tracer:
                return orig(*a, **kw)
            try:
                args = argf(*a, **kw)
                lvl = lvlf(*a, **kw)
            except Exception as e:  # machinery problem, never a verdict
                args, lvl = {"argerr": repr(e)}, "?"
            if not leaf:
                tracer.log(op, "b", lvl, args)
            try:
                res = orig(*a, **kw)
            except BaseException as e:
                tracer.log(op, "x" if leaf else "e", lvl, args, exc=exc_sig(e))
                raise
            if res is not None and op == "join_tails_exits":
                args = dict(args)
                args["ret"] = [str(res[0]), str(res[1])]
            tracer.log(op, "x" if leaf else "e", lvl, args)
            return res

        self._saved.append((owner, attr, orig))
        setattr(owner, attr, wrapper)

    def _wrap_name(self, owner: Any, attr: str, fl: str) -> None:
        orig = getattr(owner, attr)
        tracer = self

        def wrapper(gen: Any, kind: str) -> str:
            name = orig(gen, kind)
            if Tracer.active is tracer:
                tracer.log("name", "x", "", {"fl": fl, "kind": str(kind), "name": str(name)})
            return name

        self._saved.append((owner, attr, orig))
        setattr(owner, attr, wrapper)

    def __enter__(self) -> "Tracer":
        assert Tracer.active is None
        Tracer.active = self
        if self.names:
            from numba_scfg.core.datastructures.scfg import NameGenerator

            for fl, attr in (("block", "new_block_name"), ("region", "new_region_name"), ("var", "new_var_name")):
                self._wrap_name(NameGenerator, attr, fl)
        if not self.primitives:
            return self

        def lvl_of(s: SCFG) -> str:
            return str(s.region.name)

        self._wrap(
            SCFG, "insert_block", "insert_block", True,
            lambda s, new, P, S, ty: {"new": str(new), "P": [str(x) for x in P], "S": [str(x) for x in S], "ty": _TYPE_KIND.get(ty, getattr(ty, "__name__", "?"))},
            lambda s, *a, **k: lvl_of(s),
        )
        self._wrap(
            SCFG, "insert_block_and_control_blocks", "insert_ctl", True,
            lambda s, new, P, S: {"new": str(new), "P": [str(x) for x in P], "S": [str(x) for x in S]},
            lambda s, *a, **k: lvl_of(s),
        )
        self._wrap(SCFG, "join_returns", "join_returns", False, lambda s: {}, lambda s: lvl_of(s))
        self._wrap(
            SCFG, "join_tails_and_exits", "join_tails_exits", False,
            lambda s, T, X: {"T": [str(x) for x in T], "X": [str(x) for x in X]},
            lambda s, *a, **k: lvl_of(s),
        )
        self._wrap(
            tr, "loop_restructure_helper", "loop_rotate", False,
            lambda s, loop: {"loop": sorted(str(x) for x in loop)},
            lambda s, *a, **k: lvl_of(s),
        )
        self._wrap(
            tr, "extract_region", "extract", True,
            lambda s, blocks, kind, parent: {"blocks": sorted(str(x) for x in blocks), "kind": str(kind), "parent": str(parent.name)},
            lambda s, *a, **k: lvl_of(s),
        )
        self._wrap(tr, "restructure_loop", "loop_pass", False, lambda r: {}, lambda r: str(r.name))
        self._wrap(tr, "restructure_branch", "branch_pass", False, lambda r: {}, lambda r: str(r.name))
        return self

    def __exit__(self, *a: Any) -> None:
        for owner, attr, orig in reversed(self._saved):
            setattr(owner, attr, orig)
        self._saved = []
        Tracer.active = None


STAGES = ("closed", "loops", "branches")


def build_scfg(named: Dict[str, List[str]], mk: Optional[Callable[[str, tuple], Any]] = None, used_generator: bool = False) -> SCFG:
    if used_generator:
        # a generator that has already served another graph (it has handed out names before this graph exists)
        from numba_scfg.core.datastructures.scfg import NameGenerator

        gen = NameGenerator()
        other = SCFG(graph={"p": bb.BasicBlock(name="p", _jump_targets=("q",)), "q": bb.BasicBlock(name="q")}, name_gen=gen)
        other.name_gen.new_block_name("synth_tail")
        return SCFG(graph={n: bb.BasicBlock(name=n, _jump_targets=tuple(ss)) for n, ss in named.items()}, name_gen=gen)
    blocks = {}
    for n, ss in named.items():
        if mk is None:
            blocks[n] = bb.BasicBlock(name=n, _jump_targets=tuple(ss))
        else:
            blocks[n] = mk(n, tuple(ss))
    return SCFG(graph=blocks)


def _entry_of(H: Dict[str, Any]) -> str:
    tg = {t for r in H.values() for t in r["jt"]}
    ent = [n for n in H if n not in tg]
    return ent[0] if len(ent) == 1 else ""


def record_restructure(
    scfg: SCFG,
    ident: Any,
    pids: Optional[PayloadIds] = None,
    primitives: bool = True,
    stage_hook: Optional[Callable[[str, SCFG], Any]] = None,
    stage_states: bool = True,
    names: bool = False,
    reload_between: bool = False,
    via_subgraphs: bool = False,
    default_recursion_limit: bool = False,
    probe_names: bool = False,
    fork_between: bool = False,
) -> Dict[str, Any]:
    """Run join_returns / restructure_loop / restructure_branch on `scfg`,
    recording every primitive event and the full state at every stage.

    fork_between: before every stage but the first a COPY of the graph is made through the dictionary form and the REST of the pipeline
    is run on the copy (untraced); the graph under observation is a graph that is held while its serialised copy is transformed.
    Nothing the copy does may show in it: the state of the previous stage is captured again after the copy has been used."""
    st0 = project(scfg, pids)
    beh: Dict[str, Any] = {
        "id": ident,
        "root": st0["root"],
        "orig": {n: list(r["jt"]) for n, r in st0["H"].items()},
        "origk": {n: r["k"] for n, r in st0["H"].items()},
        "origpay": {n: r.get("pay", []) for n, r in st0["H"].items()},
        "init": st0["H"],
        "entry": _entry_of(st0["H"]),
        "ng0": st0["ng"],
        "order": st0["ord"].get(st0["root"], []),
        "events": [],
        "stages": {},
        "hook": {},
        "exc": "",
        "reached": "input",
    }
    if stage_states:
        beh["stages"]["input"] = st0
    if stage_hook is not None:
        beh["hook"]["input"] = stage_hook("input", scfg)
    steps = (
        ("closed", "join_returns"),
        ("loops", "restructure_loop"),
        ("branches", "restructure_branch"),
    )
    lim = sys.getrecursionlimit()
    from numba_scfg.core.datastructures import block_names as _bn

    probe_kinds = [getattr(_bn, k) for k in dir(_bn) if k.isupper() and isinstance(getattr(_bn, k), str)]

    def probe() -> None:
        # a client asks the graph's generator for one block name of EVERY kind (the kinds of the front ends' own blocks included),
        # a region name and a variable name: none may be a name that is present (the requests are name events like any other)
        for k in probe_kinds + ["ir"]:             # "ir": a kind of the client's own choosing
            scfg.name_gen.new_block_name(k)
        scfg.name_gen.new_region_name("loop")
        scfg.name_gen.new_var_name("control")

    with Tracer(scfg, pids, primitives, names) as t:
        if probe_names:
            probe()
        for idx, (name, fn) in enumerate(steps):
            if fork_between and name != "closed":
                Tracer.active = None            # the copy's own operations are not events of the observed graph
                try:
                    copy_, _ = SCFG.from_dict(scfg.to_dict())
                    for _, fn2 in steps[idx:]:
                        getattr(copy_, fn2)()
                except Exception:
                    pass
                finally:
                    Tracer.active = t
                t.snap()
                if stage_states and beh["reached"] in beh["stages"]:
                    beh["stages"][beh["reached"]] = t.last
            if reload_between and name != "closed":
                # write the graph out and read it back between stages (C18 histories); the new object replaces the old
                # marker first: names drawn while the new graph is being built belong to the NEW generator's family
                t.log("reload", "b", st0["root"], {"before": name})
                try:
                    scfg2, _ = SCFG.from_dict(scfg.to_dict())
                    scfg = scfg2
                    t.root = scfg
                    t.log("reload", "x", st0["root"], {"before": name})
                except Exception as e:
                    t.log("reload", "x", st0["root"], {"before": name}, exc=exc_sig(e))
                    beh["exc"] = "reload:" + exc_sig(e)
                    break
            try:
                if default_recursion_limit:
                    sys.setrecursionlimit(1000)       # what a user of the library runs with (the harness itself needs more)
                if via_subgraphs and name != "closed":
                    # the same stage, driven through the SUB-GRAPH objects: the level itself, then every top-level region's own
                    # sub-graph restructures itself (SCFG.restructure_loop / restructure_branch of region.subregion, which works on
                    # that sub-graph's SCFG.region)
                    getattr(tr, fn)(scfg.region)
                    for blk in list(scfg.graph.values()):
                        if isinstance(blk, bb.RegionBlock) and blk.subregion is not None:
                            getattr(scfg.graph[blk.name].subregion, fn)()
                else:
                    getattr(scfg, fn)()
            except RecursionError as e:
                sys.setrecursionlimit(lim)
                t.log("stage", "x", st0["root"], {"name": name}, exc=exc_sig(e))
                beh["exc"] = exc_sig(e)
                break
            except Exception as e:
                t.log("stage", "x", st0["root"], {"name": name}, exc=exc_sig(e))
                beh["exc"] = exc_sig(e)
                break
            sys.setrecursionlimit(lim)
            t.log("stage", "x", st0["root"], {"name": name})
            if probe_names:
                probe()
            beh["reached"] = name
            if stage_states:
                beh["stages"][name] = t.last
            if stage_hook is not None:
                try:
                    beh["hook"][name] = stage_hook(name, scfg)
                except Exception as e:  # hook failures are recorded by the hook's owner
                    beh["hook"][name] = {"hookexc": exc_sig(e)}
        beh["events"] = t.events
    sys.setrecursionlimit(lim)
    return beh
