"""Source pipeline driver for C07 / C08 / C10 / C11: AST2SCFG -> restructure -> SCFG2AST -> unparse -> compile,
the static census of the generated tree, the block-wise interpreter of the built graph, and scripted executions."""
from __future__ import annotations

import ast
import signal
from typing import Any, Dict, List, Optional, Sequence, Tuple

from . import pyrt
from .record import exc_sig

RESERVED = ("__scfg_",)


class SkeletonError(Exception):
    pass


class MalformedOutput(Exception):
    """The generated tree is not a valid statement list (e.g. a bare expression node in statement position)."""


def skeleton_of(fdef: Any, ids: Dict[int, int]) -> List[Any]:
    """Control skeleton of the generated function: original statements / tests / returned expressions are opaque ids
    (node identity), the synthetic shapes (control-variable assignments, `if var in (...)`, flag loops, the return
    variable) are recognised by pattern.  Anything else is an extraction error (reported, never guessed)."""

    def code(stmts: List[Any]) -> List[Any]:
        out: List[Any] = []
        for n in stmts:
            if id(n) in ids and isinstance(n, ast.stmt):
                if isinstance(n, ast.Return):
                    out.append({"k": "ret", "id": ids[id(n.value)] if (n.value is not None and id(n.value) in ids) else 0})
                else:
                    out.append({"k": "stmt", "id": ids[id(n)]})
            elif isinstance(n, ast.Pass):
                continue
            elif isinstance(n, ast.If):
                t = n.test
                if id(t) in ids:
                    test = {"k": "opaque", "id": ids[id(t)]}
                elif (isinstance(t, ast.Compare) and isinstance(t.left, ast.Name) and len(t.ops) == 1 and isinstance(t.ops[0], ast.In)
                      and isinstance(t.comparators[0], ast.Tuple) and all(isinstance(e, ast.Constant) for e in t.comparators[0].elts)):
                    test = {"k": "in", "var": t.left.id, "vals": [int(e.value) for e in t.comparators[0].elts]}
                else:
                    raise SkeletonError("if-test of unknown shape: " + ast.dump(t)[:80])
                out.append({"k": "if", "test": test, "body": code(n.body), "orelse": code(n.orelse)})
            elif isinstance(n, ast.While) and isinstance(n.test, ast.Name) and not n.orelse:
                out.append({"k": "while", "var": n.test.id, "body": code(n.body)})
            elif isinstance(n, ast.Assign) and len(n.targets) == 1 and isinstance(n.targets[0], ast.Name) and n.targets[0].id.startswith("__scfg_"):
                tn, v = n.targets[0].id, n.value
                if tn == "__scfg_return_value__":
                    out.append({"k": "retval", "id": ids[id(v)] if id(v) in ids else 0})
                elif isinstance(v, ast.Constant) and isinstance(v.value, bool):
                    out.append({"k": "setbool", "var": tn, "val": bool(v.value)})
                elif isinstance(v, ast.Constant) and isinstance(v.value, int):
                    out.append({"k": "asg", "var": tn, "val": int(v.value)})
                elif isinstance(v, ast.UnaryOp) and isinstance(v.op, ast.Not) and isinstance(v.operand, ast.Name):
                    out.append({"k": "setnot", "var": tn, "src": v.operand.id})
                else:
                    raise SkeletonError("synthetic assignment of unknown shape: " + ast.dump(n)[:80])
            elif isinstance(n, ast.Return) and isinstance(n.value, ast.Name) and n.value.id == "__scfg_return_value__":
                out.append({"k": "return"})
            elif not isinstance(n, ast.stmt):
                raise MalformedOutput("%s node in statement position: %s" % (type(n).__name__, ast.dump(n)[:60]))
            else:
                raise SkeletonError("statement of unknown shape: " + ast.dump(n)[:80])
        return out

    return code(list(fdef.body))


def pipeline(src: str, want_census: bool = True) -> Dict[str, Any]:
    """Run the whole source pipeline once. Outcome: ok | refused | internal."""
    from numba_scfg.core.datastructures.ast_transforms import AST2SCFG, SCFG2AST
    from numba_scfg.core.datastructures.basic_block import PythonASTBlock, RegionBlock, SyntheticAssignment

    out: Dict[str, Any] = {"outcome": "ok", "stage": "", "exc": "", "text": "", "census": None, "graph": None}
    try:
        out["stage"] = "ast2scfg"
        scfg = AST2SCFG(src)
        out["graph"] = {str(n): {"jt": [str(t) for t in b._jump_targets], "n": len(b.tree)} for n, b in scfg.graph.items()}
        ids: Dict[int, int] = {}
        keep: List[Any] = []

        def nid(node: Any) -> int:
            if id(node) not in ids:
                ids[id(node)] = len(ids) + 1
                keep.append(node)
            return ids[id(node)]

        blocks: Dict[str, List[int]] = {}
        ret_units: Dict[str, List[int]] = {}
        rets: Dict[str, int] = {}       # block -> id of the returned value expression (0: bare return)
        tests: Dict[str, int] = {}      # block -> id of the test expression
        for name, b in scfg.graph.items():
            units: List[int] = []
            for k, node in enumerate(b.tree):
                last = k == len(b.tree) - 1
                if last and len(b._jump_targets) == 2:
                    # the test is a bare expression, or (desugared for-loop header) an expression statement
                    tests[str(name)] = nid(node.value) if isinstance(node, ast.Expr) else nid(node)
                elif isinstance(node, ast.Return):
                    units.append(nid(node))
                    ret_units.setdefault(str(name), []).append([nid(node), nid(node.value) if node.value is not None else 0])
                else:
                    units.append(nid(node))
            blocks[str(name)] = units
        # the flat graph as the skeleton product sees it: per block the opaque units, the test and the ordered successors
        flat: Dict[str, Any] = {}
        for name, b in scfg.graph.items():
            units = []
            for k, node in enumerate(b.tree):
                if k == len(b.tree) - 1 and len(b._jump_targets) == 2:
                    continue
                if isinstance(node, ast.Return):
                    units.append(["R", nid(node.value) if node.value is not None else 0])
                else:
                    units.append(["S", nid(node)])
            flat[str(name)] = {"units": units, "test": tests.get(str(name), 0), "jt": [str(t) for t in b._jump_targets]}
        out["flat"] = flat
        orig_names = {n.id for n in ast.walk(ast.parse(src)) if isinstance(n, ast.Name)} | {a.arg for a in ast.walk(ast.parse(src)) if isinstance(a, ast.arg)}
        out["stage"] = "restructure"
        scfg.restructure()
        from .project import project

        st_ = project(scfg)
        out["H"], out["root"] = st_["H"], st_["root"]
        out["stage"] = "scfg2ast"
        fdef = SCFG2AST(src, scfg)
        out["stage"] = "skeleton"
        try:
            out["skeleton"] = skeleton_of(fdef, ids)
            out["skeleton_exc"] = ""
        except SkeletonError as e:
            out["skeleton"] = []
            out["skeleton_exc"] = str(e)
        except MalformedOutput as e:
            out["outcome"] = "internal"
            out["exc"] = "MalformedAST@SCFG2AST"
            out["stage"] = "scfg2ast"
            out["skeleton"] = []
            out["skeleton_exc"] = ""
            return out
        out["stage"] = "unparse"
        text = ast.unparse(ast.fix_missing_locations(ast.Module(body=[fdef], type_ignores=[])))
        out["text"] = text
        out["stage"] = "compile"
        compile(text, "<regenerated>", "exec")
        out["stage"] = "done"
        if want_census:
            exp_asg: List[List[Any]] = []
            for _, b in scfg:
                if isinstance(b, SyntheticAssignment):
                    exp_asg += [[str(k), int(v)] for k, v in b.variable_assignment.items()]

            def census_of(fd: Any) -> Dict[str, Any]:
                emitted: List[int] = []
                iftests: List[int] = []
                retvals: List[int] = []
                emit_asg: List[List[Any]] = []
                for node in ast.walk(fd):
                    if id(node) in ids and isinstance(node, ast.stmt):
                        emitted.append(ids[id(node)])
                    if isinstance(node, ast.If) and id(node.test) in ids:
                        iftests.append(ids[id(node.test)])
                    if isinstance(node, ast.Assign) and id(node) not in ids and len(node.targets) == 1 and isinstance(node.targets[0], ast.Name):
                        tn = node.targets[0].id
                        if tn == "__scfg_return_value__":
                            v = node.value
                            retvals.append(ids[id(v)] if id(v) in ids else 0)
                        elif tn.startswith("__scfg_") and isinstance(node.value, ast.Constant) and isinstance(node.value.value, int) and not isinstance(node.value.value, bool):
                            emit_asg.append([tn, int(node.value.value)])
                new_names = ({n.id for n in ast.walk(fd) if isinstance(n, ast.Name)} | {a.arg for a in ast.walk(fd) if isinstance(a, ast.arg)}) - orig_names
                outside = sorted(n for n in new_names if not (n.startswith("__scfg_") and n.endswith("__")))
                # a statement unit of a block that is a Return is emitted either as itself or as an assignment of its value to the return variable
                return {"blocks": blocks, "rets": rets, "tests": tests, "emitted": emitted, "iftests": iftests, "retvals": retvals,
                        "emit_asg": emit_asg, "exp_asg": exp_asg, "outside": outside, "ret_units": ret_units}

            out["census"] = census_of(fdef)
            # generating code a second time from the same restructured graph must give the same census (the statement holds for every
            # regeneration; a generator that consumes or edits the blocks it emits is caught here)
            out["second"] = {"outcome": "ok", "stage": "", "census": {}}
            try:
                out["second"]["stage"] = "scfg2ast"
                fdef2 = SCFG2AST(src, scfg)
                out["second"]["stage"] = "unparse"
                text2 = ast.unparse(ast.fix_missing_locations(ast.Module(body=[fdef2], type_ignores=[])))
                out["second"]["stage"] = "compile"
                compile(text2, "<regenerated-again>", "exec")
                out["second"]["stage"] = "done"
                out["second"]["census"] = census_of(fdef2)
            except NotImplementedError:
                out["second"]["outcome"] = "refused-second-time"
            except Exception as e:
                out["second"]["outcome"] = "internal"
                out["second"]["exc"] = exc_sig(e) if not isinstance(e, SyntaxError) else "SyntaxError@generated-code"
    except NotImplementedError as e:
        out["outcome"] = "refused"
        out["exc"] = exc_sig(e)
    except RecursionError as e:
        out["outcome"] = "internal"
        out["exc"] = exc_sig(e)
    except SyntaxError as e:
        out["outcome"] = "internal"
        out["exc"] = "SyntaxError@generated-code"
    except Exception as e:
        out["outcome"] = "internal"
        out["exc"] = exc_sig(e)
    return out


# ---------------------------------------------------------------------------------------------- executions
class _Timeout(BaseException):
    pass


def _alarm(*a: Any) -> None:
    raise _Timeout()


LINE_BUDGET = 60000


def _finish(orc: pyrt.Oracle, fn: Any) -> Dict[str, Any]:
    """Run fn() under a DETERMINISTIC step budget (number of executed source lines, counted with sys.settrace): a run that
    exceeds it is reported as `diverges`.  Wall-clock time never decides an outcome (a loaded machine must not change a
    verdict); a generous alarm is kept only as a backstop and surfaces as a machinery failure."""
    import sys

    count = [0]

    def tracer(frame: Any, event: str, arg: Any) -> Any:
        if event == "line":
            count[0] += 1
            if count[0] > LINE_BUDGET:
                raise pyrt.StepLimit()
        return tracer

    old = signal.signal(signal.SIGALRM, _alarm)
    signal.setitimer(signal.ITIMER_REAL, 120.0)
    try:
        try:
            sys.settrace(tracer)
            try:
                res = fn()
            finally:
                sys.settrace(None)
            outcome = ["ret", pyrt.vid(res)]
        except pyrt.ScriptExhausted:
            outcome = ["more", ""]
        except pyrt.StepLimit:
            outcome = ["diverges", ""]
        except _Timeout:
            raise RuntimeError("wall-clock backstop hit while executing a scripted run")
        except RecursionError:
            outcome = ["exc", "RecursionError"]
        except Exception as e:
            outcome = pyrt.outcome_of_exception(e)
    finally:
        sys.settrace(None)
        signal.setitimer(signal.ITIMER_REAL, 0)
        signal.signal(signal.SIGALRM, old)
    return {"events": orc.events, "outcome": outcome, "used": orc.i}


def run_function(text: str, fname: str, script: Sequence[str], pnames: Sequence[str] = ("a", "b", "c")) -> Dict[str, Any]:
    """Execute a function given as source text (the original or the regenerated one) under a scripted oracle."""
    orc = pyrt.Oracle(script)
    ns: Dict[str, Any] = dict(pyrt.externals(orc))
    code = compile(text, "<src>", "exec")
    exec(code, ns)
    f = ns[fname]

    def go() -> Any:
        args = pyrt.params(orc, list(pnames))
        return f(*args)

    return _finish(orc, go)


def run_blocks(src: str, script: Sequence[str], pnames: Sequence[str] = ("a", "b", "c")) -> Dict[str, Any]:
    """C08: interpret the graph built from the source block by block, exactly as the property defines it:
    run the block's statements; with two successors evaluate its last expression and take the first if true, else the
    second; stop at a return."""
    from numba_scfg.core.datastructures.ast_transforms import AST2SCFG

    scfg = AST2SCFG(src)
    orc = pyrt.Oracle(script)
    ns: Dict[str, Any] = dict(pyrt.externals(orc))

    def go() -> Any:
        args = pyrt.params(orc, list(pnames))
        ns.update(dict(zip(list(pnames), args)))
        cur = "0"
        steps = 0
        while True:
            steps += 1
            if steps > 5000:
                raise pyrt.StepLimit()
            b = scfg.graph[cur]
            tree = list(b.tree)
            two = len(b._jump_targets) == 2
            val: Any = None
            for k, node in enumerate(tree):
                if isinstance(node, ast.Return):
                    if node.value is None:
                        return None
                    return eval(compile(ast.fix_missing_locations(ast.Expression(body=node.value)), "<blk>", "eval"), ns)
                if isinstance(node, ast.Expr) and two and k == len(tree) - 1:
                    # the header of a desugared for-loop carries its test as an expression statement
                    val = eval(compile(ast.fix_missing_locations(ast.Expression(body=node.value)), "<blk>", "eval"), ns)
                elif isinstance(node, ast.expr):
                    val = eval(compile(ast.fix_missing_locations(ast.Expression(body=node)), "<blk>", "eval"), ns)
                else:
                    exec(compile(ast.fix_missing_locations(ast.Module(body=[node], type_ignores=[])), "<blk>", "exec"), ns)
            if two:
                cur = b._jump_targets[0] if val else b._jump_targets[1]
            elif len(b._jump_targets) == 1:
                cur = b._jump_targets[0]
            else:
                return None   # fell off a block without successors and without a return statement

    return _finish(orc, go)
