"""Hand-written functions whose bytecode has shapes that are rare in the standard library (domain B, C09): loops without a
condition, conditional jumps to the next instruction, jumps to jumps, long bodies (EXTENDED_ARG), chained comparisons,
assignment expressions, loop else clauses, lambdas and nested definitions (their code objects are inputs too)."""
# flake8: noqa


def loop_forever_break(a):
    n = 0
    while True:
        n += 1
        if n > a:
            break
    return n


def loop_forever_return(a):
    while True:
        a -= 1
        if a < 0:
            return a


def empty_if(a):
    if a:
        pass
    return a


def empty_else(a, b):
    if a:
        b = 1
    else:
        pass
    return b


def jump_to_jump(a, b):
    while a:
        if b:
            continue
        a -= 1
    return a


def nested_loops_else(a, b):
    r = 0
    for i in range(a):
        for j in range(b):
            if i == j:
                break
        else:
            r += 1
            continue
        r -= 1
    else:
        r *= 2
    return r


def chained(a, b, c):
    if a < b < c:
        return 1
    if a < b <= c < 10 != a:
        return 2
    return 0


def walrus(a):
    r = 0
    while (n := a - r) > 0:
        if (m := n % 3) == 0:
            r += 1
        elif m == 1:
            r += 2
        else:
            r += 3
    return r


def boolean_mix(a, b, c):
    x = a and b or c
    y = not (a or b) and c
    if a and (b or c) and not (b and c):
        return x
    return y


def ternaries(a, b):
    return (a if b else b if a else 0) + (1 if a and b else 2)


def is_none(a, b):
    if a is None:
        return 0
    if b is not None:
        return 1
    while a is not None and b is None:
        a = None
    return 2


def early_returns(a):
    if a == 0:
        return 0
    elif a == 1:
        return 1
    elif a == 2:
        return 2
    elif a == 3:
        return 3
    for i in range(a):
        if i == 7:
            return i
    return -1


def with_lambda(a):
    f = lambda x: x + 1 if x else x - 1
    g = lambda x, y: (x and y) or (x if y else y)
    return f(a) + g(a, a)


def with_nested_def(a):
    def inner(x):
        while x > 0:
            if x % 2:
                x -= 1
                continue
            x //= 2
        return x

    def inner2(x, y=a):
        return x if x > y else y

    return inner(a) + inner2(a)


def comprehension_user(a):
    xs = [i * 2 for i in range(a) if i % 2 or i > 3]
    d = {i: j for i in xs for j in xs if i < j}
    return len(xs) + len(d)


def unpacking(a):
    r = 0
    for i, (j, k) in enumerate([(1, 2), (3, 4)]):
        if i and j or k:
            r += i + j + k
    x, *y = range(a + 1)
    return r + x + len(y)


def long_if(a):
    x = 0
    if a:
        x += 1; x += 2; x += 3; x += 4; x += 5; x += 6; x += 7; x += 8; x += 9; x += 10
        x += 1; x += 2; x += 3; x += 4; x += 5; x += 6; x += 7; x += 8; x += 9; x += 10
        x += 1; x += 2; x += 3; x += 4; x += 5; x += 6; x += 7; x += 8; x += 9; x += 10
        x += 1; x += 2; x += 3; x += 4; x += 5; x += 6; x += 7; x += 8; x += 9; x += 10
        x += 1; x += 2; x += 3; x += 4; x += 5; x += 6; x += 7; x += 8; x += 9; x += 10
        x += 1; x += 2; x += 3; x += 4; x += 5; x += 6; x += 7; x += 8; x += 9; x += 10
        x += 1; x += 2; x += 3; x += 4; x += 5; x += 6; x += 7; x += 8; x += 9; x += 10
        x += 1; x += 2; x += 3; x += 4; x += 5; x += 6; x += 7; x += 8; x += 9; x += 10
        x += 1; x += 2; x += 3; x += 4; x += 5; x += 6; x += 7; x += 8; x += 9; x += 10
        x += 1; x += 2; x += 3; x += 4; x += 5; x += 6; x += 7; x += 8; x += 9; x += 10
        x += 1; x += 2; x += 3; x += 4; x += 5; x += 6; x += 7; x += 8; x += 9; x += 10
        x += 1; x += 2; x += 3; x += 4; x += 5; x += 6; x += 7; x += 8; x += 9; x += 10
    else:
        x -= 1
    return x


def long_loop(a):
    x = 0
    while x < a:
        x += 1; x -= 1; x += 1; x -= 1; x += 1; x -= 1; x += 1; x -= 1; x += 1; x -= 1
        x += 1; x -= 1; x += 1; x -= 1; x += 1; x -= 1; x += 1; x -= 1; x += 1; x -= 1
        x += 1; x -= 1; x += 1; x -= 1; x += 1; x -= 1; x += 1; x -= 1; x += 1; x -= 1
        x += 1; x -= 1; x += 1; x -= 1; x += 1; x -= 1; x += 1; x -= 1; x += 1; x -= 1
        x += 1; x -= 1; x += 1; x -= 1; x += 1; x -= 1; x += 1; x -= 1; x += 1; x -= 1
        x += 1; x -= 1; x += 1; x -= 1; x += 1; x -= 1; x += 1; x -= 1; x += 1; x -= 1
        x += 1; x -= 1; x += 1; x -= 1; x += 1; x -= 1; x += 1; x -= 1; x += 1; x -= 1
        x += 1; x -= 1; x += 1; x -= 1; x += 1; x -= 1; x += 1; x -= 1; x += 1; x -= 1
        x += 1; x -= 1; x += 1; x -= 1; x += 1; x -= 1; x += 1; x -= 1; x += 1; x -= 1
        x += 1; x -= 1; x += 1; x -= 1; x += 1; x -= 1; x += 1; x -= 1; x += 1; x -= 1
        if x == 3:
            continue
        x += 1
    return x


def only_pass():
    pass


def while_false(a):
    while False:
        a += 1
    return a


def while_one_else(a):
    while 1:
        a += 1
        if a > 3:
            break
    else:
        a = 0
    return a


def for_in_while(a):
    r = 0
    while a > 0:
        for i in range(a):
            if i > 2:
                break
            r += i
        else:
            a -= 1
            continue
        a -= 2
    return r
