"""TLC runner: direct JVM invocation (DESIGN section 5), -tool output parsing,
sharded runs, scratch management under /verif/.work."""
from __future__ import annotations

import concurrent.futures as cf
import json
import os
import re
import shutil
import subprocess
import time
from dataclasses import dataclass, field
from typing import Any, Dict, List, Optional, Sequence

VERIF = os.path.dirname(os.path.dirname(os.path.abspath(__file__)))
SPEC = os.path.join(VERIF, "spec")
WORK = os.path.join(VERIF, ".work")
JARS = "/opt/veriftools/tla/tla2tools.jar:/opt/veriftools/tla/CommunityModules-deps.jar"

MSG = re.compile(r"@!@!@STARTMSG (\d+):(\d+) @!@!@\n(.*?)\n?@!@!@ENDMSG \1 @!@!@", re.S)


class MachineryError(Exception):
    """Anything that is not a verdict: parse errors, JVM failures, timeouts."""


@dataclass
class TLCResult:
    exit: int
    out: str
    wall: float
    generated: int = 0
    distinct: int = 0
    depth: int = 0
    violations: List[Dict[str, Any]] = field(default_factory=list)  # {"inv":..., "states":[text...]}
    prints: List[str] = field(default_factory=list)
    coverage: Dict[str, int] = field(default_factory=dict)
    error: str = ""

    @property
    def ok(self) -> bool:
        return self.exit == 0 and not self.violations and not self.error


def _die_with_parent() -> None:
    """Child JVMs must not outlive a killed check (orphans once burned every core for an hour)."""
    try:
        import ctypes
        import signal

        ctypes.CDLL("libc.so.6").prctl(1, signal.SIGKILL)   # PR_SET_PDEATHSIG
    except Exception:
        pass


def scratch(tag: str) -> str:
    d = os.path.join(WORK, "%s-%d-%d" % (tag, os.getpid(), int(time.time() * 1000) % 10 ** 9))
    os.makedirs(d, exist_ok=True)
    return d


def cleanup(d: str) -> None:
    shutil.rmtree(d, ignore_errors=True)


def parse(out: str) -> TLCResult:
    res = TLCResult(exit=0, out=out, wall=0.0)
    msgs = [(int(c), int(s), b) for c, s, b in MSG.findall(out)]
    # user output = everything outside messages
    outside = MSG.sub("", out)
    for line in outside.splitlines():
        line = line.strip()
        if not line or line.startswith(("Parsing file", "Semantic processing", "Linting of")):
            continue
        res.prints.append(line)
    cur: Optional[Dict[str, Any]] = None
    for code, sev, body in msgs:
        if code == 2107:  # invariant violated by initial state (state inline)
            m = re.match(r"Invariant (\S+) is violated by the initial state:\n(.*)", body, re.S)
            if m:
                res.violations.append({"inv": m.group(1), "states": [m.group(2).strip()]})
            cur = None
        elif code in (2110, 2112, 2113, 2114, 2115, 2116, 2111):  # invariant / action property / temporal violated
            m = re.search(r"(?:Invariant|Action property|property) (\S+) is violated", body)
            cur = {"inv": m.group(1) if m else body.strip()[:80], "states": []}
            res.violations.append(cur)
        elif code == 2217:  # state print
            if cur is not None:
                cur["states"].append(body.strip())
        elif code == 2199:
            m = re.search(r"(\d+) states generated, (\d+) distinct states found", body)
            if m:
                res.generated, res.distinct = int(m.group(1)), int(m.group(2))
        elif code == 2194:
            m = re.search(r"search is (\d+)", body)
            if m:
                res.depth = int(m.group(1))
        elif code == 2772 or code == 2221:  # coverage lines <Action line ... of module M>: a:b
            m = re.match(r"<(\w+) line .*?>: (\d+):(\d+)", body)
            if m:
                res.coverage[m.group(1)] = res.coverage.get(m.group(1), 0) + int(m.group(3))
        elif code in (1000, 2103, 2104, 2105, 2106, 2154, 2155, 2171, 3002, 3005, 3006, 3007, 2132, 2133, 2134, 2135, 2136, 2137, 2138, 2139) or (sev == 1 and code < 2100):
            res.error = (res.error + "\n" + body).strip()
        elif sev == 1 and code not in (2107, 2110, 2112, 2113, 2115, 2116, 2114, 2111, 2120, 2121, 2122):
            res.error = (res.error + "\n[%d] %s" % (code, body)).strip()
    return res


def run(
    module: str,
    cfg: str,
    env: Optional[Dict[str, str]] = None,
    workers: int = 1,
    timeout: int = 1800,
    extra: Sequence[str] = (),
    heap: str = "2g",
    cont: bool = True,
    tag: str = "tlc",
    simulate: Optional[str] = None,
    deadlock: bool = False,
    coverage: bool = False,
) -> TLCResult:
    """Run TLC on spec/<module>.tla with config text `cfg`."""
    d = scratch(tag)
    try:
        cfgp = os.path.join(d, module + ".cfg")
        with open(cfgp, "w") as f:
            f.write(cfg)
        cmd = [
            "java", "-Xmx" + heap, "-Xss64m", "-XX:+UseParallelGC", "-XX:ParallelGCThreads=%d" % max(2, min(4, workers)),
            "-XX:-UsePerfData", "-Dtlc2.tool.fp.FPSet.impl=tlc2.tool.fp.OffHeapDiskFPSet" if False else "-Dverif=1",
            "-cp", JARS, "tlc2.TLC", "-tool", "-noGenerateSpecTE", "-workers", str(workers),
            "-metadir", os.path.join(d, "md"), "-config", cfgp,
        ]
        if heap.endswith("g") and int(heap[:-1]) >= 2:
            cmd.insert(2, "-Xmn512m")
        if cont:
            cmd.append("-continue")
        if deadlock:
            cmd.append("-deadlock")
        if coverage:
            cmd += ["-coverage", "1"]
        if simulate:
            cmd += ["-simulate", simulate]
        cmd += list(extra)
        cmd.append(os.path.join(SPEC, module + ".tla"))
        e = dict(os.environ)
        e.update(env or {})
        t0 = time.time()
        try:
            p = subprocess.run(cmd, cwd=SPEC, env=e, stdout=subprocess.PIPE, stderr=subprocess.STDOUT, timeout=timeout, text=True, errors="replace",
                               preexec_fn=_die_with_parent)
        except subprocess.TimeoutExpired as ex:
            raise MachineryError("TLC timeout after %ds on %s" % (timeout, module)) from ex
        res = parse(p.stdout)
        res.exit = p.returncode
        res.wall = time.time() - t0
        if p.returncode not in (0, 12, 13) and not res.error:
            res.error = "TLC exit %d\n%s" % (p.returncode, p.stdout[-3000:])
        if p.returncode in (12, 13) and not res.violations:
            res.error = "TLC reported a violation that could not be parsed\n" + p.stdout[-3000:]
        return res
    finally:
        cleanup(d)


def run_shards(
    module: str,
    cfg: str,
    shard_envs: List[Dict[str, str]],
    jobs: int = 16,
    **kw: Any,
) -> List[TLCResult]:
    with cf.ThreadPoolExecutor(max_workers=jobs) as ex:
        futs = [ex.submit(run, module, cfg, env, tag="%s-s%d" % (module, i), **kw) for i, env in enumerate(shard_envs)]
        return [f.result() for f in futs]


def require_ok(results: Sequence[TLCResult], what: str) -> None:
    for r in results:
        if r.error:
            raise MachineryError("%s: %s" % (what, r.error[:3000]))


# ---- parsing of TLC values printed in states / PrintT -----------------------

def parse_state(text: str) -> Dict[str, Any]:
    """Parse '/\\ a = v\\n/\\ b = w' into {a: value}."""
    out: Dict[str, Any] = {}
    parts = re.split(r"(?m)^/\\ ", text.strip())
    for p in parts:
        p = p.strip()
        if not p:
            continue
        if p[0].isdigit() and ":" in p.split("\n", 1)[0]:
            # "1: <Initial predicate>" header line
            p = p.split("\n", 1)[1] if "\n" in p else ""
            if not p:
                continue
            for q in re.split(r"(?m)^/\\ ", p):
                q = q.strip()
                if q:
                    k, v = q.split(" = ", 1)
                    out[k.strip()] = parse_value(v.strip())
            continue
        k, v = p.split(" = ", 1)
        out[k.strip()] = parse_value(v.strip())
    return out


def parse_value(s: str) -> Any:
    v, i = _pv(s, 0)
    return v


def _ws(s: str, i: int) -> int:
    while i < len(s) and s[i] in " \n\t\r":
        i += 1
    return i


def _pv(s: str, i: int) -> Any:
    i = _ws(s, i)
    if s.startswith("<<", i):
        i += 2
        items = []
        i = _ws(s, i)
        if s.startswith(">>", i):
            return items, i + 2
        while True:
            v, i = _pv(s, i)
            items.append(v)
            i = _ws(s, i)
            if s.startswith(">>", i):
                return items, i + 2
            assert s[i] == ",", (s[max(0, i - 20): i + 20])
            i += 1
    if s[i] == "{":
        i += 1
        items = []
        i = _ws(s, i)
        if s[i] == "}":
            return items, i + 1
        while True:
            v, i = _pv(s, i)
            items.append(v)
            i = _ws(s, i)
            if s[i] == "}":
                return items, i + 1
            assert s[i] == ","
            i += 1
    if s[i] == "[":
        i += 1
        rec = {}
        while True:
            i = _ws(s, i)
            m = re.compile(r"(\w+)\s*\|->\s*").match(s, i)
            assert m, s[i: i + 40]
            i = m.end()
            v, i = _pv(s, i)
            rec[m.group(1)] = v
            i = _ws(s, i)
            if s[i] == "]":
                return rec, i + 1
            assert s[i] == ","
            i += 1
    if s[i] == "(":  # function  (a :> b @@ c :> d)
        i += 1
        fn = {}
        while True:
            k, i = _pv(s, i)
            i = _ws(s, i)
            assert s.startswith(":>", i)
            v, i = _pv(s, i + 2)
            fn[json.dumps(k) if not isinstance(k, (str, int)) else k] = v
            i = _ws(s, i)
            if s[i] == ")":
                return fn, i + 1
            assert s.startswith("@@", i)
            i += 2
    if s[i] == '"':
        j = i + 1
        buf = []
        while s[j] != '"':
            if s[j] == "\\":
                j += 1
            buf.append(s[j])
            j += 1
        return "".join(buf), j + 1
    m = re.compile(r"-?\d+").match(s, i)
    if m:
        return int(m.group(0)), m.end()
    m = re.compile(r"TRUE|FALSE").match(s, i)
    if m:
        return m.group(0) == "TRUE", m.end()
    m = re.compile(r"\w+").match(s, i)
    assert m, s[i: i + 40]
    return m.group(0), m.end()
