"""Inverse of the projection: build live numba_scfg objects from an abstract
state (used to replay TLC-generated behaviours into the real code, E3)."""
from __future__ import annotations

from typing import Any, Dict, List, Optional

from numba_scfg.core.datastructures import basic_block as bb
from numba_scfg.core.datastructures.scfg import SCFG, NameGenerator

CLS = {
    "basic": bb.BasicBlock,
    "tail": bb.SyntheticTail,
    "exit": bb.SyntheticExit,
    "fill": bb.SyntheticFill,
    "return": bb.SyntheticReturn,
    "synth": bb.SyntheticBlock,
    "head": bb.SyntheticHead,
    "latch": bb.SyntheticExitingLatch,
    "exitbranch": bb.SyntheticExitBranch,
    "branch": bb.SyntheticBranch,
}


def unproject(H: Dict[str, Any], root: str, ng: Dict[str, int], order: Optional[Dict[str, List[str]]] = None) -> SCFG:
    gen = NameGenerator(kinds={k: int(v) for k, v in ng.items() if int(v) > 0})
    children: Dict[str, List[str]] = {}
    for n, r in H.items():
        children.setdefault(r["up"], []).append(n)
    if order:
        for lvl, names in order.items():
            if lvl in children:
                rank = {n: i for i, n in enumerate(names)}
                children[lvl].sort(key=lambda n: rank.get(n, len(rank)))

    def mk_scfg(graph: Dict[str, Any]) -> SCFG:
        s = SCFG(graph=graph, name_gen=NameGenerator())
        object.__setattr__(s, "name_gen", gen)
        return s

    def build_level(lvl: str, parent: Any) -> Dict[str, Any]:
        out: Dict[str, Any] = {}
        for n in children.get(lvl, []):
            r = H[n]
            k = r["k"]
            jt, be = tuple(r["jt"]), tuple(r["be"])
            if k == "region":
                sub = mk_scfg({})
                reg = bb.RegionBlock(name=n, _jump_targets=jt, backedges=be, kind=r["rk"], parent_region=parent,
                                     header=r["header"], subregion=sub, exiting=r["exiting"])
                object.__setattr__(sub, "region", reg)
                sub.graph.update(build_level(n, reg))
                out[n] = reg
            elif k == "assign":
                out[n] = bb.SyntheticAssignment(name=n, _jump_targets=jt, backedges=be, variable_assignment={a[0]: a[1] for a in r["asg"]})
            elif k in ("head", "latch", "exitbranch", "branch"):
                out[n] = CLS[k](name=n, _jump_targets=jt, backedges=be, variable=r["var"], branch_value_table={e[0]: e[1] for e in r["tab"]})
            elif k == "bytecode":
                out[n] = bb.PythonBytecodeBlock(name=n, _jump_targets=jt, backedges=be, begin=r["pay"][0], end=r["pay"][1])
            elif k == "ast":
                out[n] = bb.PythonASTBlock(name=n, _jump_targets=jt, backedges=be, tree=[])
            else:
                out[n] = CLS[k](name=n, _jump_targets=jt, backedges=be)
        return out

    top = mk_scfg({})
    meta = bb.RegionBlock(name=root, kind="meta", header=None, exiting=None, parent_region=None, subregion=top)
    object.__setattr__(top, "region", meta)
    top.graph.update(build_level(root, meta))
    return top


def find_level(scfg: SCFG, lvl: str) -> SCFG:
    if str(scfg.region.name) == lvl:
        return scfg
    for reg in scfg.iter_subregions():
        if str(reg.name) == lvl:
            assert reg.subregion is not None
            return reg.subregion
    raise KeyError(lvl)


def same_state(code: Dict[str, Any], spec_H: Dict[str, Any], spec_ng: Optional[Dict[str, int]] = None) -> List[str]:
    """Differences between a projected code state and a TLC state (tables and
    assignments are compared as mappings: dict order is not part of this comparison)."""
    diffs: List[str] = []
    ch = code["H"]
    for n in sorted(set(ch) | set(spec_H)):
        if n not in ch:
            diffs.append("%s: missing in code" % n)
            continue
        if n not in spec_H:
            diffs.append("%s: missing in spec" % n)
            continue
        a, b = ch[n], spec_H[n]
        for f in ("k", "jt", "be", "up", "rk", "header", "exiting", "var"):
            if f in a or f in b:
                if _norm(a.get(f)) != _norm(b.get(f)):
                    diffs.append("%s.%s: code %r spec %r" % (n, f, a.get(f), b.get(f)))
        for f in ("tab", "asg"):
            if f in a or f in b:
                x = sorted(map(tuple, a.get(f, [])))
                y = sorted(map(tuple, b.get(f, [])))
                if x != y:
                    diffs.append("%s.%s: code %r spec %r" % (n, f, x, y))
    if spec_ng is not None:
        for k in set(code["ng"]) | set(spec_ng):
            if k == "meta":
                continue  # sub-graph construction draws meta names; not modelled for plain edits
            if int(code["ng"].get(k, 0)) != int(spec_ng.get(k, 0)):
                diffs.append("ng[%s]: code %s spec %s" % (k, code["ng"].get(k, 0), spec_ng.get(k, 0)))
    return diffs


def _norm(v: Any) -> Any:
    if isinstance(v, tuple):
        return list(v)
    return v
