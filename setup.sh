#!/bin/sh
# Offline setup: nothing to build; parse every specification module once so a broken module fails here.
set -e
cd "$(dirname "$0")/spec"
for f in *.tla; do
  java -cp /opt/veriftools/tla/tla2tools.jar:/opt/veriftools/tla/CommunityModules-deps.jar tla2sany.SANY "$f" > /tmp/.sany.$$ 2>&1 || { cat /tmp/.sany.$$; rm -f /tmp/.sany.$$; exit 1; }
  if grep -q "Fatal errors\|\*\*\* Errors" /tmp/.sany.$$; then cat /tmp/.sany.$$; rm -f /tmp/.sany.$$; exit 1; fi
done
rm -f /tmp/.sany.$$
mkdir -p ../.work ../evidence ../replays
echo "setup ok"
