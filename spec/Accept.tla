------------------------------- MODULE Accept -------------------------------
(***************************************************************************)
(* C02 on recorded behaviours: the trace-end invariant NeverFails /        *)
(* Terminates for every input the real code was run on, the membership of  *)
(* every such input in the closed-CFG domain of DESIGN section 9, and the   *)
(* certification that the recorded inputs with at most EXH nodes are        *)
(* exactly ClosedCFG(1) .. ClosedCFG(EXH) (so `exhaustive` is established   *)
(* by TLC from the TLA+ definition of the domain, not asserted).           *)
(*   Cases[i] = [g |-> successor lists (node u at index u+1), exc, reached, *)
(*               timeout]                                                   *)
(***************************************************************************)
EXTENDS Graph, Json, IOUtils

Cases == JsonDeserialize(IOEnv.CASES)
Exh   == atoi(IOEnv.EXH)          \* certify exhaustiveness up to this node count (0 = no certification in this shard)

ToFun(gs) == [u \in 0..(Len(gs) - 1) |-> gs[u + 1]]

VARIABLES tid, bad

Recorded(n) == {ToFun(Cases[i].g) : i \in {j \in 1..Len(Cases) : Cases[j].exact /\ Len(Cases[j].g) = n}}
Distinct == \A n \in 1..Exh : Cardinality(Recorded(n)) = Cardinality({j \in 1..Len(Cases) : Cases[j].exact /\ Len(Cases[j].g) = n})

Verdict(t) ==
  LET c == Cases[t] IN
  (IF c.exc # "" THEN {"NeverFails"} ELSE {})
  \cup (IF c.timeout THEN {"Terminates"} ELSE {})
  \cup (IF c.exc = "" /\ ~c.timeout /\ c.reached # "branches" THEN {"Completes"} ELSE {})
  \cup (IF c.exact /\ ~ClosedG(ToFun(c.g)) THEN {"MACHINERY-input-outside-domain"} ELSE {})

Certify ==
  (IF \A n \in 1..Exh : Recorded(n) = ClosedCFG(n) THEN {} ELSE {"MACHINERY-domain-not-exhaustive"})
  \cup (IF Distinct THEN {} ELSE {"MACHINERY-duplicate-inputs"})

Init == /\ tid \in 0..Len(Cases)
        /\ bad = IF tid = 0 THEN (IF Exh > 0 THEN Certify ELSE {}) ELSE Verdict(tid)
Next == UNCHANGED <<tid, bad>>
Holds == bad = {}
=============================================================================
