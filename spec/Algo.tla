-------------------------------- MODULE Algo --------------------------------
(***************************************************************************)
(* Executable transcriptions of the library's graph algorithms as          *)
(* deterministic operators (no variables): the vendored iterative Tarjan,  *)
(* SCFG.is_reachable_dfs and transformations._imm_doms.  The order in      *)
(* which Python iterates a dict or a list is an explicit argument.         *)
(* Checked against the definitions by QueryImpl.tla (C13); used by the     *)
(* pipeline model (Pipeline.tla).                                          *)
(***************************************************************************)
EXTENDS Graph

(***************************************************************************)
(* Tarjan, as vendored.  G : node -> Seq(node) (successors inside the       *)
(* graph, list order), order : Seq(node) = iteration order of the graph.    *)
(* One call of TStep = one iteration of `while queue`.                       *)
(***************************************************************************)
MinOf(a, b) == IF a < b THEN a ELSE b
FirstNew(s, pre) == LET J == {j \in 1..Len(s) : s[j] \notin DOMAIN pre} IN IF J = {} THEN 0 ELSE Min(J)
RECURSIVE LowFold(_, _, _, _, _, _)
LowFold(s, j, v, pre, low, found) ==          \* the `for w in G[v]` loop that computes lowlink[v]; returns the number
  IF j > Len(s) THEN low[v]
  ELSE LET w == s[j] IN
       IF w \in found THEN LowFold(s, j + 1, v, pre, low, found)
       ELSE LET nv == IF pre[w] > pre[v] THEN MinOf(low[v], low[w]) ELSE MinOf(low[v], pre[w])
            IN LowFold(s, j + 1, v, pre, [low EXCEPT ![v] = nv], found)
RECURSIVE PopWhile(_, _, _, _)
PopWhile(sq, pre, v, acc) ==                  \* while scc_queue and preorder[scc_queue[-1]] > preorder[v]: pop
  IF Len(sq) > 0 /\ pre[sq[Len(sq)]] > pre[v] THEN PopWhile(SubSeq(sq, 1, Len(sq) - 1), pre, v, acc \cup {sq[Len(sq)]})
  ELSE <<sq, acc>>
Put1(f, k, x) == [y \in DOMAIN f \cup {k} |-> IF y = k THEN x ELSE f[y]]

RECURSIVE TWhile(_, _), TFor(_, _, _, _)
TWhile(G, st) ==
  IF st.queue = <<>> THEN st
  ELSE LET v == st.queue[Len(st.queue)]
           i2 == IF v \in DOMAIN st.pre THEN st.i ELSE st.i + 1
           pre2 == IF v \in DOMAIN st.pre THEN st.pre ELSE Put1(st.pre, v, st.i + 1)
           fn == FirstNew(G[v], pre2)
       IN IF fn # 0
          THEN TWhile(G, [st EXCEPT !.i = i2, !.pre = pre2, !.queue = Append(st.queue, G[v][fn])])
          ELSE LET low1 == Put1(st.low, v, pre2[v])
                   lv == LowFold(G[v], 1, v, pre2, low1, st.found)
                   low2 == [low1 EXCEPT ![v] = lv]
                   q2 == SubSeq(st.queue, 1, Len(st.queue) - 1)
               IN IF lv = pre2[v]
                  THEN LET pw == PopWhile(st.sq, pre2, v, {v})
                       IN TWhile(G, [i |-> i2, pre |-> pre2, low |-> low2, found |-> st.found \cup pw[2], sq |-> pw[1],
                                     queue |-> q2, out |-> Append(st.out, pw[2])])
                  ELSE TWhile(G, [i |-> i2, pre |-> pre2, low |-> low2, found |-> st.found, sq |-> Append(st.sq, v),
                                  queue |-> q2, out |-> st.out])
TFor(G, order, j, st) ==
  IF j > Len(order) THEN st
  ELSE IF order[j] \in st.found THEN TFor(G, order, j + 1, st)
  ELSE TFor(G, order, j + 1, TWhile(G, [st EXCEPT !.queue = <<order[j]>>]))
\* Seq of sets, in the order the generator yields them
Tarjan(G, order) ==
  TFor(G, order, 1, [i |-> 0, pre |-> <<>>, low |-> <<>>, found |-> {}, sq |-> <<>>, queue |-> <<>>, out |-> <<>>]).out

(***************************************************************************)
(* is_reachable_dfs(begin, end).  X : node -> Seq(name) forward targets     *)
(* (names outside DOMAIN X are never expanded).                              *)
(***************************************************************************)
RECURSIVE Dfs(_, _, _, _)
Dfs(X, stack, seen, end) ==
  IF stack = <<>> THEN FALSE
  ELSE LET b == stack[Len(stack)] rest == SubSeq(stack, 1, Len(stack) - 1) IN
       IF b \in seen THEN Dfs(X, rest, seen, end)
       ELSE IF b = end THEN TRUE
       ELSE Dfs(X, IF b \in DOMAIN X THEN rest \o X[b] ELSE rest, seen \cup {b}, end)
ReachDfs(X, a, z) == Dfs(X, X[a], {}, z)

(***************************************************************************)
(* _imm_doms(doms): repeated in-place subtraction, iteration in `order`.    *)
(* The inner `for v in list(vs): vs -= idoms[v]` walks a snapshot of vs.    *)
(***************************************************************************)
RECURSIVE ISub(_, _, _, _), IPass(_, _, _, _), IFix(_, _, _)
ISub(id, k, snap, j) == IF j > Len(snap) THEN id ELSE ISub([id EXCEPT ![k] = @ \ id[snap[j]]], k, snap, j + 1)
IPass(id, order, j, changed) ==
  IF j > Len(order) THEN <<id, changed>>
  ELSE LET k == order[j]
           snap == SelectSeq(order, LAMBDA v : v \in id[k])          \* list(vs): some order; ties cannot matter (checked)
           id2 == ISub(id, k, snap, 1)
       IN IPass(id2, order, j + 1, changed \/ Cardinality(id2[k]) < Cardinality(id[k]))
IFix(id, order, fuel) ==
  IF fuel = 0 THEN id ELSE LET p == IPass(id, order, 1, FALSE) IN IF p[2] THEN IFix(p[1], order, fuel - 1) ELSE p[1]
ImmDoms(D, order) == IFix([k \in DOMAIN D |-> D[k] \ {k}], order, Cardinality(DOMAIN D) + 2)
\* the `[v] = vs` unpacking raises unless every remaining set has at most one element
ImmDomsOk(D, order) == \A k \in DOMAIN D : Cardinality(ImmDoms(D, order)[k]) <= 1

=============================================================================
