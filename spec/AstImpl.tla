------------------------------ MODULE AstImpl ------------------------------
(***************************************************************************)
(* Impl layer of the SOURCE front end: an executable transcription of      *)
(* AST2SCFGTransformer (block allocation, and/or desugaring, if / while /  *)
(* for lowering with the loop stack, sealing rules, the three pruning      *)
(* passes) on the node tables of PySem.tla, plus the block-wise            *)
(* interpreter the property C08 defines.                                   *)
(*                                                                         *)
(*   MODE = "mc"    : E1 - for every program and EVERY oracle script up to *)
(*                    depth MAXD, TLC checks that interpreting the lowered *)
(*                    graph block by block is observationally equal to the *)
(*                    reference semantics Run (events and outcome).        *)
(*   MODE = "conf"  : conformance - the graph built by the real AST2SCFG   *)
(*                    (block names, ordered successors, and per block the  *)
(*                    kinds / assignment targets of its instructions) must *)
(*                    equal Lower(program).  Disagreement is DRIFT.        *)
(*                                                                         *)
(* Lowering threads a state                                                *)
(*   [N, B, order, cur, bi, boi, loops, fail]                              *)
(* N: node table (grows: rewritten expressions and synthetic statements    *)
(* are appended), B: block name -> [ins, jt], order: creation order of the *)
(* blocks (dict insertion order matters for prune_empty), cur: current     *)
(* block, bi: next block index, boi: and/or counter, loops: stack of       *)
(* <<head, exit>>.                                                         *)
(***************************************************************************)
EXTENDS PySem

\* ---------------------------------------------------------------- helpers
SeqSet2(q) == {q[j] : j \in 1..Len(q)}
StmtKinds == {"assign", "aug", "expr", "return", "pass", "break", "continue", "if", "while", "for"}
Nm(i) == ToString(i)
AddNode(L, rec) == [L EXCEPT !.N = Append(@, rec)]
Last(L) == Len(L.N)                                  \* id of the node appended last
Emit(L, id) == [L EXCEPT !.B = [@ EXCEPT ![L.cur] = [@ EXCEPT !.ins = Append(@, id)]]]
SetJt(L, tg) == [L EXCEPT !.B = [@ EXCEPT ![L.cur] = [@ EXCEPT !.jt = tg]]]
AddBlock(L, i) == [L EXCEPT !.B = [x \in DOMAIN L.B \cup {Nm(i)} |-> IF x = Nm(i) THEN [ins |-> <<>>, jt |-> <<>>] ELSE L.B[x]],
                            !.order = IF Nm(i) \in SeqSet2(L.order) THEN L.order ELSE Append(L.order, Nm(i)),
                            !.cur = Nm(i)]
NameNode(v) == [k |-> "name", id |-> v]
AssignTo(v, e) == [k |-> "assign", t |-> v, v |-> e]
LastIns(L) == LET b == L.B[L.cur] IN IF b.ins = <<>> THEN [k |-> "none"] ELSE L.N[b.ins[Len(b.ins)]]

\* ---------------------------------------------------------------- expressions
\* handle_expression: returns <<L, id of the processed expression>>.  and/or is desugared into blocks; operands of
\* comparisons, binary operators and calls are processed recursively; everything else is left as it is.
RECURSIVE HExpr(_, _), HBool(_, _, _), HList(_, _, _, _)
HList(L, ids, j, acc) ==
  IF j > Len(ids) THEN <<L, acc>> ELSE LET r == HExpr(L, ids[j]) IN HList(r[1], ids, j + 1, Append(acc, r[2]))
HExpr(L, e) ==
  LET n == L.N[e] IN
  IF n.k = "boolop" THEN
     IF Len(n.vs) > 2 THEN
        \* binary tree: first operand, and the and/or of the rest (processed lazily inside the new block)
        LET L1 == AddNode(L, [k |-> "boolop", op |-> n.op, vs |-> SubSeq(n.vs, 2, Len(n.vs))]) IN
        HBool(L1, n.op, <<n.vs[1], Last(L1)>>)
     ELSE \* two operands: BOTH are processed first (eagerly), then the and/or itself
        LET r == HList(L, n.vs, 1, <<>>) IN HBool(r[1], n.op, r[2])
  ELSE IF n.k = "cmp" THEN
     LET r1 == HExpr(L, n.l)
         r2 == HList(r1[1], n.rs, 1, <<>>)
         L2 == AddNode(r2[1], [k |-> "cmp", l |-> r1[2], rs |-> r2[2]])
     IN <<L2, Last(L2)>>
  ELSE IF n.k = "binop" THEN
     LET r1 == HExpr(L, n.l)
         r2 == HExpr(r1[1], n.r)
         L2 == AddNode(r2[1], [k |-> "binop", l |-> r1[2], r |-> r2[2]])
     IN <<L2, Last(L2)>>
  ELSE IF n.k = "ev" THEN
     LET r == HList(L, n.args, 1, <<>>)
         L2 == AddNode(r[1], [k |-> "ev", arg |-> n.arg, args |-> r[2]])
     IN <<L2, Last(L2)>>
  ELSE IF n.k = "iterof" THEN       \* iter(<expr>) of the for pre-header: a call, its argument is processed
     LET r == HExpr(L, n.e)
         L2 == AddNode(r[1], [k |-> "iterof", e |-> r[2]])
     IN <<L2, Last(L2)>>
  ELSE <<L, e>>
\* handle_bool_op on two operands vs = <<left id, right id>>
HBool(L0, op, vs) ==
  LET L1 == [L0 EXCEPT !.boi = @ + 1]
      var == "__scfg_bool_op_" \o Nm(L1.boi) \o "__"
      rl == HExpr(L1, vs[1])
      La == AddNode(rl[1], AssignTo(var, rl[2]))
      Lb == Emit(La, Last(La))
      Lc == AddNode(Lb, NameNode(var))
      Ld == Emit(Lc, Last(Lc))                       \* the test
      other == Ld.bi                                 \* false block (or) / true block (and)
      merge == Ld.bi + 1
      Le == SetJt([Ld EXCEPT !.bi = @ + 2], IF op = "or" THEN <<Nm(merge), Nm(other)>> ELSE <<Nm(other), Nm(merge)>>)
      Lf == AddBlock(Le, other)
      rr == HExpr(Lf, vs[2])
      Lg == AddNode(rr[1], AssignTo(var, rr[2]))
      Lh == SetJt(Emit(Lg, Last(Lg)), <<Nm(merge)>>)
      Li == AddBlock(Lh, merge)
      Lj == AddNode(Li, NameNode(var))
  IN <<Lj, Last(Lj)>>

\* ---------------------------------------------------------------- statements
Seal(L, default) ==
  LET li == LastIns(L) IN
  IF L.loops # <<>> THEN
     LET top == L.loops[Len(L.loops)] IN
     IF li.k = "continue" THEN SetJt(L, <<Nm(top[1])>>)
     ELSE IF li.k = "break" THEN SetJt(L, <<Nm(top[2])>>)
     ELSE IF li.k = "return" THEN L
     ELSE SetJt(L, <<Nm(default)>>)
  ELSE IF li.k = "return" THEN L ELSE SetJt(L, <<Nm(default)>>)

RECURSIVE Gen(_, _, _), GenStmt(_, _)
Gen(L, ss, j) ==
  IF j > Len(ss) \/ L.fail THEN L
  ELSE LET L1 == GenStmt(L, ss[j]) IN
       IF L.N[ss[j]].k \in {"return", "break", "continue"} THEN L1 ELSE Gen(L1, ss, j + 1)
GenStmt(L, s) ==
  LET n == L.N[s] IN
  IF n.k \in {"assign", "aug", "expr"} THEN
     LET r == HExpr(L, n.v)
         L1 == AddNode(r[1], IF n.k = "expr" THEN [k |-> "expr", v |-> r[2]] ELSE [k |-> n.k, t |-> n.t, v |-> r[2]])
     IN Emit(L1, Last(L1))
  ELSE IF n.k = "return" THEN
     IF n.v = 0 THEN Emit(L, s)
     ELSE LET r == HExpr(L, n.v) L1 == AddNode(r[1], [k |-> "return", v |-> r[2]]) IN Emit(L1, Last(L1))
  ELSE IF n.k \in {"pass", "break", "continue"} THEN Emit(L, s)
  ELSE IF n.k = "if" THEN
     LET th == L.bi el == L.bi + 1 en == L.bi + 2
         r == HExpr([L EXCEPT !.bi = @ + 3], n.test)
         L1 == SetJt(Emit(r[1], r[2]), <<Nm(th), Nm(el)>>)
         L2 == Seal(Gen(AddBlock(L1, th), n.body, 1), en)
         L3 == Seal(Gen(AddBlock(L2, el), n.orelse, 1), en)
     IN AddBlock(L3, en)
  ELSE IF n.k = "while" THEN
     LET hd == L.bi bd == L.bi + 1 ex == L.bi + 2 el == L.bi + 3
         L0 == AddBlock(SetJt([L EXCEPT !.bi = @ + 4], <<Nm(hd)>>), hd)
         r == HExpr(L0, n.test)
         L1 == SetJt(Emit(r[1], r[2]), <<Nm(bd), Nm(el)>>)
         L2 == AddBlock(L1, bd)
         L3 == Seal(Gen([L2 EXCEPT !.loops = Append(@, <<hd, ex>>)], n.body, 1), hd)
         L4 == AddBlock([L3 EXCEPT !.loops = SubSeq(@, 1, Len(@) - 1)], el)
         L5 == Seal(Gen(L4, n.orelse, 1), ex)
     IN AddBlock(L5, ex)
  ELSE IF n.k = "for" THEN
     LET hd == L.bi bd == L.bi + 1 el == L.bi + 2 ex == L.bi + 3
         itv == "__scfg_iterator_" \o Nm(hd) \o "__"
         lastv == "__scfg_iter_last_" \o Nm(hd) \o "__"
         \* pre-header:  it = iter(<iterable>) ;  target = None        (both go through the statement dispatcher)
         La == AddNode([L EXCEPT !.bi = @ + 4], [k |-> "iterof", e |-> n.iter])
         ra == HExpr(La, Last(La))
         Lb == AddNode(ra[1], AssignTo(itv, ra[2]))
         Lc == Emit(Lb, Last(Lb))
         Ld == AddNode(Lc, [k |-> "const", c |-> "None"])
         Le == AddNode(Ld, AssignTo(n.t, Last(Ld)))
         Lf == AddBlock(SetJt(Emit(Le, Last(Le)), <<Nm(hd)>>), hd)
         \* header:  last = target ;  target = next(it, sentinel) ;  target != sentinel
         Lg == AddNode(Lf, NameNode(n.t))
         Lh == AddNode(Lg, AssignTo(lastv, Last(Lg)))
         Li == Emit(Lh, Last(Lh))
         Lj == AddNode(Li, [k |-> "nextof", it |-> itv])
         Lk == AddNode(Lj, AssignTo(n.t, Last(Lj)))
         Ll == Emit(Lk, Last(Lk))
         Lm == AddNode(Ll, [k |-> "notsentinel", id |-> n.t])
         Ln == AddNode(Lm, [k |-> "expr", v |-> Last(Lm)])
         Lo == AddBlock(SetJt(Emit(Ln, Last(Ln)), <<Nm(bd), Nm(el)>>), bd)
         Lp == Seal(Gen([Lo EXCEPT !.loops = Append(@, <<hd, ex>>)], n.body, 1), hd)
         Lq == AddBlock([Lp EXCEPT !.loops = SubSeq(@, 1, Len(@) - 1)], el)
         \* else:  target = last ;  <orelse>
         Lr == AddNode(Lq, NameNode(lastv))
         Ls == AddNode(Lr, AssignTo(n.t, Last(Lr)))
         Lt == Seal(Gen(Emit(Ls, Last(Ls)), n.orelse, 1), ex)
     IN AddBlock(Lt, ex)
  ELSE [L EXCEPT !.fail = TRUE]

\* ---------------------------------------------------------------- pruning
RECURSIVE ReachFrom(_, _, _)
ReachFrom(B, seen, fr) ==
  IF fr = {} THEN seen
  ELSE LET nw == (UNION {SeqSet2(B[u].jt) : u \in fr \cap DOMAIN B}) \ seen IN ReachFrom(B, seen \cup nw, nw)
PruneUnreachable(L) ==
  LET keep == ReachFrom(L.B, {"0"}, {"0"}) \cap DOMAIN L.B IN
  [L EXCEPT !.B = [x \in keep |-> L.B[x]], !.order = SelectSeq(L.order, LAMBDA x : x \in keep)]
PruneNoops(L) ==
  [L EXCEPT !.B = [x \in DOMAIN L.B |-> [L.B[x] EXCEPT !.ins = SelectSeq(@, LAMBDA i : L.N[i].k \notin {"pass", "break", "continue"})]]]
\* prune_empty: in creation order; the entry block stays; every reference is rewired; when both successors coincide the block
\* keeps one successor and its test becomes an expression statement
RECURSIVE PruneEmptyF(_, _)
Rewire(L, name, it) ==
  LET fix(b) ==
        IF Len(b.jt) = 1 THEN (IF b.jt[1] = name THEN [b EXCEPT !.jt = <<it>>] ELSE b)
        ELSE IF Len(b.jt) = 2 THEN
             LET j1 == IF b.jt[1] = name THEN it ELSE b.jt[1]
                 j2 == IF b.jt[2] = name THEN it ELSE b.jt[2]
             IN IF j1 = j2 THEN [b EXCEPT !.jt = <<j1>>, !.collapsed = TRUE] ELSE [b EXCEPT !.jt = <<j1, j2>>]
        ELSE b
  IN [x \in DOMAIN L.B \ {name} |-> fix(L.B[x])]
PruneEmptyF(L, j) ==
  IF j > Len(L.order) THEN L
  ELSE LET name == L.order[j] IN
       IF name \notin DOMAIN L.B \/ name = "0" \/ L.B[name].ins # <<>> THEN PruneEmptyF(L, j + 1)
       ELSE IF L.B[name].jt = <<>> THEN [L EXCEPT !.fail = TRUE]                 \* block.jump_targets[0] raises IndexError
       ELSE PruneEmptyF([L EXCEPT !.B = Rewire(L, name, L.B[name].jt[1])], j + 1)
\* a collapsed block: wrap its (bare expression) test into an expression statement
WrapCollapsed(L) ==
  LET names == {x \in DOMAIN L.B : L.B[x].collapsed /\ L.B[x].ins # <<>> /\ L.N[L.B[x].ins[Len(L.B[x].ins)]].k \notin StmtKinds} IN
  IF names = {} THEN L
  ELSE LET RECURSIVE W(_, _)
           W(LL, S) == IF S = {} THEN LL
                       ELSE LET x == CHOOSE y \in S : TRUE
                                b == LL.B[x]
                                L1 == AddNode(LL, [k |-> "expr", v |-> b.ins[Len(b.ins)]])
                            IN W([L1 EXCEPT !.B = [@ EXCEPT ![x] = [@ EXCEPT !.ins = [b.ins EXCEPT ![Len(b.ins)] = Last(L1)]]]], S \ {x})
       IN W(L, names)
\* ---------------------------------------------------------------- whole front end
Lower(P) ==
  LET N0 == P.N
      \* handle_function_def: an implicit bare return is appended when the body does not end in a return
      needret == P.body = <<>> \/ N0[P.body[Len(P.body)]].k # "return"
      N1 == IF needret THEN Append(N0, [k |-> "return", v |-> 0]) ELSE N0
      body == IF needret THEN Append(P.body, Len(N1)) ELSE P.body
      L0 == [N |-> N1, B |-> [x \in {"0"} |-> [ins |-> <<>>, jt |-> <<>>]], order |-> <<"0">>, cur |-> "0", bi |-> 1, boi |-> 0,
             loops |-> <<>>, fail |-> FALSE]
      L1 == Gen(L0, body, 1)
      L1c == [L1 EXCEPT !.B = [x \in DOMAIN L1.B |-> [ins |-> L1.B[x].ins, jt |-> L1.B[x].jt, collapsed |-> FALSE]]]
      L2 == PruneNoops(PruneUnreachable(L1c))
      L3 == WrapCollapsed(PruneEmptyF(L2, 1))
  IN L3

\* ---------------------------------------------------------------- block-wise interpreter (the definition in C08)
\* values of the for-loop desugaring: iterators and the sentinel
IterVal(items) == [tag |-> "it", items |-> items, pos |-> 1]
Sentinel == [tag |-> "c", c |-> "__scfg_sentinel__"]
RECURSIVE EvalX(_, _, _, _)
\* Eval extended with the three desugaring forms (they create no events)
EvalX(N, m, a, e) ==
  LET n == N[e] IN
  IF ~Ok(m) THEN m
  ELSE IF n.k = "iterof" THEN
       LET m1 == EvalX(N, m, a, n.e) IN
       IF ~Ok(m1) THEN m1 ELSE IF m1.val.tag # "l" THEN Exc(m1, "TypeError") ELSE [m1 EXCEPT !.val = IterVal(m1.val.items)]
  ELSE IF n.k = "nextof" THEN
       IF n.it \notin DOMAIN m.st THEN Exc(m, "Unbound")
       ELSE LET itr == m.st[n.it] IN
            IF itr.pos > Len(itr.items) THEN [m EXCEPT !.val = Sentinel]
            ELSE [Store(m, n.it, [itr EXCEPT !.pos = @ + 1]) EXCEPT !.val = itr.items[itr.pos]]
  ELSE IF n.k = "notsentinel" THEN
       IF n.id \notin DOMAIN m.st THEN Exc(m, "Unbound")
       ELSE [m EXCEPT !.val = Const(IF m.st[n.id] = Sentinel THEN "False" ELSE "True")]
  ELSE Eval(N, m, a, e)
\* statements of a block: only simple statements occur
ExecIns(N, m, a, s) ==
  LET n == N[s] IN
  IF ~Ok(m) THEN m
  ELSE IF n.k = "assign" THEN
       (IF N[n.v].k \in {"iterof", "nextof", "notsentinel"}
        THEN LET m1 == EvalX(N, m, a, n.v) IN IF ~Ok(m1) THEN m1 ELSE Store(m1, n.t, m1.val)
        ELSE Exec(N, m, a, s))
  ELSE IF n.k = "expr" /\ N[n.v].k \in {"iterof", "nextof", "notsentinel"} THEN EvalX(N, m, a, n.v)
  ELSE IF n.k \in StmtKinds THEN Exec(N, m, a, s)
  ELSE EvalX(N, m, a, s)                                  \* a bare expression (the test)
\* number of consecutive blocks that may run without consuming an oracle answer before the run is cut as non-productive
BlockFuel == 200
RECURSIVE RunBlocks(_, _, _, _, _)
RunBlocks(L, m, a, cur, fuel) ==
  IF fuel = 0 THEN [m EXCEPT !.status = "more", !.need = "fuel"]
  ELSE IF cur \notin DOMAIN L.B THEN Exc(m, "DanglingTarget")
  ELSE LET b == L.B[cur]
           RECURSIVE Ins(_, _)
           Ins(mm, j) == IF j > Len(b.ins) \/ ~Ok(mm) THEN mm ELSE Ins(ExecIns(L.N, mm, a, b.ins[j]), j + 1)
           m1 == Ins(m, 1)
       IN IF ~Ok(m1) THEN m1                                \* return / exception / out of answers
          ELSE IF Len(b.jt) = 2 THEN RunBlocks(L, m1, a, IF Truthy(m1.val) THEN b.jt[1] ELSE b.jt[2], IF m1.i > m.i THEN BlockFuel ELSE fuel - 1)
          ELSE IF Len(b.jt) = 1 THEN RunBlocks(L, m1, a, b.jt[1], IF m1.i > m.i THEN BlockFuel ELSE fuel - 1)
          ELSE [m1 EXCEPT !.status = "ret", !.val = CNone]     \* fell off a block without successor
RunLowered(p, a) ==
  LET P == Progs[p]
      L == Lower(P)
      m == RunBlocks(L, Bind(P, M0, a, 1), a, "0", BlockFuel)
  IN IF L.fail THEN Exc(M0, "LoweringFails") ELSE m

(************************ E1: all programs, all scripts ********************)
VARIABLES apid, aans, adone, abad
avars == <<apid, aans, adone, abad>>
Compare(p, a) ==
  LET r == Run(p, a) l == RunLowered(p, a) IN
  IF r.status \in {"more", "unmodelled"} \/ l.status = "unmodelled" THEN {}
  ELSE (IF Flat(l.ev) # Flat(r.ev) THEN {"Events"} ELSE {}) \cup (IF Outcome(l) # Outcome(r) THEN {"Outcome"} ELSE {})
Idle == pid = 0 /\ ans = <<>> /\ done = "done" /\ tid = 0 /\ bad = {}
AInit == /\ apid \in 1..Len(Progs) /\ aans = <<>> /\ adone = (Run(apid, <<>>).status # "more") /\ abad = Compare(apid, <<>>)
ANext == /\ ~adone /\ Len(aans) < MaxD
         /\ LET m == Run(apid, aans) IN
            /\ m.need # "fuel"
            /\ \E x \in Alphabet(m.need) :
                 /\ aans' = Append(aans, x)
                 /\ adone' = (Run(apid, aans').status # "more")
                 /\ abad' = Compare(apid, aans')
                 /\ UNCHANGED apid
LoweringPreservesMeaning == abad = {}

(************************ conformance with the real front end **************)
\* Graphs[i] = [blocks : name -> [jt, kinds]] recorded from AST2SCFG for program i (or [refused |-> TRUE])
Graphs == IF Mode = "conf" THEN JsonDeserialize(IOEnv.GRAPHS) ELSE <<>>
KindOf(N, id) == LET n == N[id] IN
                 IF n.k \in {"assign", "aug"} THEN n.k \o ":" \o n.t
                 ELSE IF n.k \in {"expr", "return", "pass", "break", "continue"} THEN n.k ELSE "test"
VARIABLES cid, cdrift
Shape(L) == [x \in DOMAIN L.B |-> [jt |-> L.B[x].jt, kinds |-> [j \in 1..Len(L.B[x].ins) |-> KindOf(L.N, L.B[x].ins[j])]]]
CInit == /\ cid \in 1..Len(Progs)
         /\ cdrift = LET L == Lower(Progs[cid]) g == Graphs[cid] IN
                     IF g.refused THEN ~L.fail ELSE (L.fail \/ Shape(L) # g.blocks)
NoDrift == ~cdrift

(************************ known-finding matching ***************************)
\* MODE = "explain": Cases = recorded executions (of the block-wise interpretation of the REAL graph, or of the regenerated function) that
\* disagree with the reference semantics on a program of a documented family.  Such a disagreement is the documented one exactly when the
\* execution shows what the front end AS SPECIFIED here does on that script - events and outcome; anything else is a new defect.
Explained(c) ==
  LET l == RunLowered(c.pid, c.ans) IN
  l.status # "unmodelled" /\ Flat(l.ev) = c.events /\ Outcome(l) = c.outcome
InitExplain == /\ tid \in 1..Len(Cases) /\ bad = (IF Explained(Cases[tid]) THEN {} ELSE {"not-the-documented-behaviour"})
               /\ pid = 0 /\ ans = <<>> /\ done = "done" /\ apid = 0 /\ aans = <<>> /\ adone = TRUE /\ abad = {} /\ cid = 0 /\ cdrift = FALSE
NextExplain == UNCHANGED <<pid, ans, done, tid, bad, cid, cdrift, apid, aans, adone, abad>>

\* ---- configurations ----
InitMC   == AInit /\ Idle /\ cid = 0 /\ cdrift = FALSE
NextMC   == ANext /\ UNCHANGED <<pid, ans, done, tid, bad, cid, cdrift>>
InitConf == CInit /\ Idle /\ apid = 0 /\ aans = <<>> /\ adone = TRUE /\ abad = {}
NextConf == UNCHANGED <<pid, ans, done, tid, bad, cid, cdrift, apid, aans, adone, abad>>
=============================================================================
