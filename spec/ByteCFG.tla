------------------------------ MODULE ByteCFG ------------------------------
(***************************************************************************)
(* C09: the graph built from bytecode is exactly the bytecode's control    *)
(* flow.                                                                   *)
(*                                                                         *)
(* An instruction stream is a sequence of records                          *)
(*     [off, size, cls, tgt]                                               *)
(* in increasing offset order: byte offset, size in bytes (inline cache    *)
(* entries included), class from the running interpreter's own opcode      *)
(* metadata - "seq" | "cond" | "jump" | "ret" - and jump target offset     *)
(* (-1 when none).  A built graph is a sequence of blocks                  *)
(*     [b, e, tg]   (begin offset, end offset, begin offsets of the        *)
(*                   ordered successors).                                  *)
(*                                                                         *)
(* Contract layer: Partition, EntryOnlyAtFirst, LeaveOnlyAfterLast,        *)
(* SuccExact - statements about instructions and blocks, no algorithm.     *)
(* Impl layer: ImplBlocks, a transcription of FlowInfo.from_bytecode +     *)
(* build_basicblocks (with the opcode classification abstracted to cls).   *)
(*                                                                         *)
(* MODE = "mc":    E1, TLC enumerates EVERY well-formed stream of up to    *)
(*                 MAXN instructions and checks that the Impl blocks       *)
(*                 satisfy the contract (and emits the streams for E3).    *)
(* MODE = "trace": E2/E3, every recorded (stream, built blocks | exception)*)
(*                 from the real code is judged against the contract, and  *)
(*                 compared with ImplBlocks (drift).                       *)
(***************************************************************************)
EXTENDS Naturals, Integers, Sequences, FiniteSets, TLC, SequencesExt, FiniteSetsExt, Json, IOUtils

Mode  == IOEnv.MODE
MaxN  == atoi(IOEnv.MAXN)
Cases == IF Mode = "trace" THEN JsonDeserialize(IOEnv.CASES) ELSE <<>>

SeqSet(q) == {q[j] : j \in 1..Len(q)}

(****************************** contract layer ****************************)
InBlock(s, B, i, j) == B[j].b <= s[i].off /\ s[i].off < B[j].e
Members(s, B, j) == {i \in 1..Len(s) : InBlock(s, B, i, j)}
MinOf(S) == CHOOSE x \in S : \A y \in S : x <= y
MaxOf(S) == CHOOSE x \in S : \A y \in S : y <= x
\* the block whose instruction range contains offset x ("?" = 0 when none)
BlockAt(s, B, x) == LET J == {j \in 1..Len(B) : B[j].b <= x /\ x < B[j].e} IN IF Cardinality(J) = 1 THEN CHOOSE j \in J : TRUE ELSE 0
IdxAt(s, x) == LET I == {i \in 1..Len(s) : s[i].off = x} IN IF I = {} THEN 0 ELSE CHOOSE i \in I : TRUE

\* contiguous, non-overlapping, gap-free blocks covering every instruction exactly once
\* (a block made only of the inline-cache bytes of a conditional jump holds no instruction: it is allowed and must fall through)
Partition(s, B) ==
  /\ Len(B) > 0
  /\ \A j \in 1..(Len(B) - 1) : B[j].e = B[j + 1].b
  /\ \A j \in 1..Len(B) : B[j].b < B[j].e
  /\ \A i \in 1..Len(s) : Cardinality({j \in 1..Len(B) : InBlock(s, B, i, j)}) = 1
\* control enters a block only at its first instruction: every jump target is the first instruction of a block
EntryOnlyAtFirst(s, B) ==
  \A i \in 1..Len(s) : s[i].cls \in {"cond", "jump"} =>
     LET j == BlockAt(s, B, s[i].tgt) IN j # 0 /\ IdxAt(s, s[i].tgt) # 0 /\ IdxAt(s, s[i].tgt) = MinOf(Members(s, B, j))
\* control leaves a block only after its last instruction
LeaveOnlyAfterLast(s, B) ==
  \A i \in 1..Len(s) : s[i].cls \in {"cond", "jump", "ret"} =>
     \A j \in 1..Len(B) : InBlock(s, B, i, j) => i = MaxOf(Members(s, B, j))
\* ordered successors = possible successors of the last instruction: fall-through first, then the jump target, none after a return
Expected(s, B, j) ==
  LET l == MaxOf(Members(s, B, j))
      nxt == IF l < Len(s) THEN <<BlockAt(s, B, s[l + 1].off)>> ELSE <<>>
  IN CASE s[l].cls = "seq"  -> nxt
       [] s[l].cls = "cond" -> nxt \o <<BlockAt(s, B, s[l].tgt)>>
       [] s[l].cls = "jump" -> <<BlockAt(s, B, s[l].tgt)>>
       [] OTHER -> <<>>
\* a successor that holds no instruction (cache bytes only) is passed through to the block it falls into
RECURSIVE Through(_, _, _, _)
Through(s, B, j, fuel) == IF j = 0 \/ fuel = 0 \/ Members(s, B, j) # {} THEN j ELSE Through(s, B, BlockAt(s, B, B[j].e), fuel - 1)
Recorded(s, B, j) == [k \in 1..Len(B[j].tg) |-> Through(s, B, BlockAt(s, B, B[j].tg[k]), Len(B))]
SuccExact(s, B) ==
  \A j \in 1..Len(B) :
     /\ IF Members(s, B, j) # {} THEN Recorded(s, B, j) = Expected(s, B, j) ELSE B[j].tg = <<B[j].e>>
     /\ \A k \in 1..Len(B[j].tg) : \E j2 \in 1..Len(B) : B[j2].b = B[j].tg[k]      \* a successor is named by its begin
\* the instructions a block HANDS OUT (PythonBytecodeBlock.get_instructions, recorded as B[j].ins where available) are exactly the
\* instructions inside its range, in stream order, each once - so the blocks' contents, not only their ranges, cover every instruction once
InstrCover(s, B) ==
  \A j \in 1..Len(B) : "ins" \in DOMAIN B[j] =>
     LET mem == Members(s, B, j)
         want == [k \in 1..Cardinality(mem) |-> s[CHOOSE i \in mem : Cardinality({m \in mem : m < i}) = k - 1].off]
     IN B[j].ins = want
Failed(s, B) ==
  IF ~Partition(s, B) THEN {"Partition"}
  ELSE {c \in {"EntryOnlyAtFirst", "LeaveOnlyAfterLast", "SuccExact", "InstrCover"} :
          ~ CASE c = "EntryOnlyAtFirst" -> EntryOnlyAtFirst(s, B)
              [] c = "LeaveOnlyAfterLast" -> LeaveOnlyAfterLast(s, B)
              [] c = "SuccExact" -> SuccExact(s, B)
              [] c = "InstrCover" -> InstrCover(s, B)}

(******************************* Impl layer *******************************)
\* FlowInfo.from_bytecode: block offsets = offset 0, every instruction flagged as jump target, and the recorded targets of
\* jump instructions (next offset = off + 2 for a conditional jump, and the jump argument)
IsTarget(s, x) == \E i \in 1..Len(s) : s[i].cls \in {"cond", "jump"} /\ s[i].tgt = x
ImplOffsets(s) ==
  {s[i].off : i \in {k \in 1..Len(s) : s[k].off = 0 \/ IsTarget(s, s[k].off)}}
  \cup {s[i].off + 2 : i \in {k \in 1..Len(s) : s[k].cls = "cond"}}
  \cup {s[i].tgt : i \in {k \in 1..Len(s) : s[k].cls \in {"cond", "jump"}}}
ImplJump(s, x) ==   \* jump_insts: offset -> targets, <<-1>> when the offset is not a recorded jump instruction
  LET I == {i \in 1..Len(s) : s[i].off = x /\ s[i].cls # "seq"} IN
  IF I = {} THEN <<-1>>
  ELSE LET i == CHOOSE k \in I : TRUE IN
       CASE s[i].cls = "cond" -> <<s[i].off + 2, s[i].tgt>> [] s[i].cls = "jump" -> <<s[i].tgt>> [] OTHER -> <<>>
\* build_basicblocks: consecutive block offsets, terminator looked up at end - 2
ImplBlocks(s) ==
  LET offs == SetToSortSeq(ImplOffsets(s), <)
      endoff == s[Len(s)].off + 2
      n == Len(offs)
  IN [j \in 1..n |->
        LET b == offs[j]
            e == IF j < n THEN offs[j + 1] ELSE endoff
            t == ImplJump(s, e - 2)
        IN [b |-> b, e |-> e, tg |-> IF t = <<-1>> THEN <<e>> ELSE t]]
\* names[end] must exist for an implicit jump: otherwise the code raises KeyError
ImplRaises(s) ==
  LET B == ImplBlocks(s) offs == ImplOffsets(s) IN
  \E j \in 1..Len(B) : \E k \in 1..Len(B[j].tg) : B[j].tg[k] \notin offs

(******************** E1: all well-formed streams up to MaxN ***************)
Classes == {"seq", "cond", "jump", "ret"}
\* offsets are determined by the sizes; enumerate (cls, size, target index) per instruction
InstrShapes(n) == {[cls |-> "seq", size |-> z, ti |-> 1] : z \in {2, 4}}
                  \cup {[cls |-> "cond", size |-> z, ti |-> t] : z \in {2, 4}, t \in 1..n}
                  \cup {[cls |-> "jump", size |-> 2, ti |-> t] : t \in 1..n}
                  \cup {[cls |-> "ret", size |-> 2, ti |-> 1]}
Shapes(n) == [1..n -> InstrShapes(n)]
OffOf(sh, i) == LET RECURSIVE Sum(_) Sum(k) == IF k = 0 THEN 0 ELSE Sum(k - 1) + sh[k].size IN Sum(i - 1)
StreamOf(sh) == [i \in 1..Len(sh) |->
                   [off |-> OffOf(sh, i), size |-> sh[i].size, cls |-> sh[i].cls,
                    tgt |-> IF sh[i].cls \in {"cond", "jump"} THEN OffOf(sh, sh[i].ti) ELSE -1]]
\* what the compiler guarantees: canonical shape fields, only seq/cond carry caches, the stream ends in a jump or return,
\* the instruction after a jump or return is itself a jump target (reachable code only)
WellFormed(sh) ==
  LET n == Len(sh) s == StreamOf(sh) IN
  /\ \A i \in 1..n : (sh[i].cls \in {"seq", "ret"} => sh[i].ti = 1) /\ (sh[i].cls \in {"jump", "ret"} => sh[i].size = 2)
  /\ sh[n].cls \in {"jump", "ret"}
  /\ \A i \in 1..(n - 1) : sh[i].cls \in {"jump", "ret"} => IsTarget(s, s[i + 1].off)

VARIABLES tid, stream, blocks, bad, drift

InitMC == /\ tid = 0
          /\ \E n \in 1..MaxN : \E sh \in Shapes(n) :
                /\ WellFormed(sh)
                /\ stream = StreamOf(sh)
          /\ blocks = ImplBlocks(stream)
          /\ bad = IF ImplRaises(stream) THEN {"Impl-raises"} ELSE Failed(stream, blocks)
          /\ drift = FALSE

(************************ E2/E3: recorded cases ****************************)
InitTrace == /\ tid \in 1..Len(Cases)
             /\ stream = Cases[tid].stream
             /\ blocks = Cases[tid].blocks
             /\ bad = IF Cases[tid].exc # "" THEN {"Built"} ELSE Failed(stream, blocks)
             /\ drift = IF Cases[tid].exc # "" THEN ~ImplRaises(stream)
                        ELSE (ImplRaises(stream) \/ ImplBlocks(stream) # blocks)

Init == IF Mode = "mc" THEN InitMC ELSE InitTrace
Next == UNCHANGED <<tid, stream, blocks, bad, drift>>
Holds == bad = {}
NoDrift == ~drift
=============================================================================
