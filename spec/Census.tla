------------------------------- MODULE Census -------------------------------
(***************************************************************************)
(* C10: a static census of the regenerated function - it covers code on    *)
(* paths no input exercises.  Statement nodes are identified by identity    *)
(* (the generator re-uses the blocks' own AST nodes), renumbered densely.  *)
(*   c.blocks   : block -> Seq(unit id)   statements of every original block*)
(*   c.ret_units: block -> Seq(<<unit id, id of returned expression | 0>>)  *)
(*   c.tests    : block -> id of the test expression of a branching block   *)
(*   c.emitted  : Seq(unit id)  statement nodes found in the output tree    *)
(*   c.retvals  : Seq(id)  values assigned to the return variable (0: None) *)
(*   c.iftests  : Seq(id)  test expressions of the `if`s of the output      *)
(*   c.emit_asg / c.exp_asg : control-variable assignments emitted / held   *)
(*                            by the synthetic assignment blocks            *)
(*   c.outside  : names introduced outside the reserved __scfg_ namespace   *)
(***************************************************************************)
EXTENDS Naturals, Integers, Sequences, FiniteSets, TLC, Json, IOUtils

Cases == JsonDeserialize(IOEnv.CASES)
VARIABLES tid, bad

SeqSet(q) == {q[j] : j \in 1..Len(q)}
Count(q, x) == Cardinality({j \in 1..Len(q) : q[j] = x})
Units(c)    == UNION {SeqSet(c.blocks[b]) : b \in DOMAIN c.blocks}
\* ret_units : block -> Seq(<<unit id, id of the returned expression (0 = bare return)>>)
RetPairs(c) == UNION {{<<c.ret_units[b][j][1], c.ret_units[b][j][2]>> : j \in 1..Len(c.ret_units[b])} : b \in DOMAIN c.ret_units}
RetUnits(c) == {p[1] : p \in RetPairs(c)}
BareRet(c)  == {p[1] : p \in {q \in RetPairs(c) : q[2] = 0}}
RECURSIVE MissingBare(_, _)
MissingBare(c, S) == IF S = {} THEN 0 ELSE LET x == CHOOSE y \in S : TRUE IN (1 - Count(c.emitted, x)) + MissingBare(c, S \ {x})

StatementsOnce(c) == \A u \in Units(c) \ RetUnits(c) : Count(c.emitted, u) = 1
\* a return statement is emitted as itself, or as the assignment of its value to the return variable - exactly one of the two
ReturnsOnce(c) ==
  /\ \A p \in RetPairs(c) : p[2] # 0 => Count(c.emitted, p[1]) + Count(c.retvals, p[2]) = 1
  /\ \A u \in BareRet(c) : Count(c.emitted, u) <= 1
  /\ MissingBare(c, BareRet(c)) = Count(c.retvals, 0)
NothingForeign(c) == SeqSet(c.emitted) \subseteq Units(c)
TestsOnce(c) == /\ \A b \in DOMAIN c.tests : Count(c.iftests, c.tests[b]) = 1
                /\ SeqSet(c.iftests) \subseteq {c.tests[b] : b \in DOMAIN c.tests}
Pair(p) == <<p[1], p[2]>>
AssignmentsOnce(c) ==
  LET E == [j \in 1..Len(c.emit_asg) |-> Pair(c.emit_asg[j])]
      X == [j \in 1..Len(c.exp_asg) |-> Pair(c.exp_asg[j])]
  IN \A p \in SeqSet(E) \cup SeqSet(X) : Count(E, p) = Count(X, p)
Hygiene(c) == c.outside = <<>>

Clauses(cs) ==
  {x \in {"StatementsOnce", "ReturnsOnce", "NothingForeign", "TestsOnce", "AssignmentsOnce", "Hygiene"} :
     ~ CASE x = "StatementsOnce" -> StatementsOnce(cs) [] x = "ReturnsOnce" -> ReturnsOnce(cs)
         [] x = "NothingForeign" -> NothingForeign(cs) [] x = "TestsOnce" -> TestsOnce(cs)
         [] x = "AssignmentsOnce" -> AssignmentsOnce(cs) [] x = "Hygiene" -> Hygiene(cs)}
\* c.second: code generated a SECOND time from the same restructured graph - the statement holds for every regeneration
Again(c) ==
  IF "second" \notin DOMAIN c THEN {}
  ELSE IF c.second.outcome = "internal" THEN {"Again/Compiles/" \o c.second.stage}
  ELSE IF c.second.outcome # "ok" THEN {"Again/RefusedSecondTime"}
  ELSE {"Again/" \o x : x \in Clauses(c.second.census)}
Verdict(c) ==
  IF c.outcome = "internal" THEN {"Compiles/" \o c.stage}
  ELSE IF c.outcome = "refused" THEN {}
  ELSE Clauses(c.census) \cup Again(c)

Init == /\ tid \in 1..Len(Cases)
        /\ bad = Verdict(Cases[tid])
Next == UNCHANGED <<tid, bad>>
Holds == bad = {}
=============================================================================
