---------------------------- MODULE CodegenImpl ----------------------------
(***************************************************************************)
(* Impl layer of the BACK END: an executable transcription of              *)
(* SCFG2ASTTransformer (region-directed code generation: if-cascades for   *)
(* branching blocks, flag loops for loop regions, the return variable,     *)
(* linear emission in the order of the region-concealing view, name lookup *)
(* through the region stack) producing the control skeleton that           *)
(* Skeleton.tla interprets.                                                *)
(*                                                                         *)
(*   Code(H, root, flat) : the skeleton of the generated function          *)
(*   H    - restructured hierarchy (Graph.tla), flat - per original block  *)
(*          [units, test, jt] with opaque identities (see Skeleton.tla).   *)
(* Result record: [code, fail] - fail where the code raises                *)
(* NotImplementedError / asserts (explicit refusal).                       *)
(***************************************************************************)
EXTENDS Impl

\* state threaded through generation: [cnt: loop_cont_counter, fail: BOOLEAN]
Item(k) == [k |-> k]
Flag(n) == "__scfg_loop_cont_" \o ToString(n) \o "__"

\* lookup(name): the block of that name, searched from the current region outwards (names are unique: a plain lookup in H)
\* - but a name that is not visible from the current region raises KeyError in the code
RECURSIVE VisibleFrom(_, _, _, _, _)
VisibleFrom(H, root, lvl, name, fuel) ==
  IF name \in Level(H, lvl) THEN TRUE
  ELSE IF lvl = root \/ fuel = 0 \/ lvl \notin DOMAIN H THEN FALSE
  ELSE VisibleFrom(H, root, H[lvl].up, name, fuel - 1)

RECURSIVE Gen(_, _, _, _, _, _), GenView(_, _, _, _, _, _, _), Cascade(_, _, _, _, _, _, _)
\* codegen(block `n`, generated while the region stack's top is `lvl`)  ->  [code, st]
Gen(H, root, flat, lvl, n, st) ==
  IF st.fail \/ st.fuel = 0 THEN [code |-> <<>>, st |-> [st EXCEPT !.fail = TRUE]]
  ELSE LET s0 == [st EXCEPT !.fuel = @ - 1] b == H[n] IN
  IF b.k \in PlainKinds THEN
     LET F == flat[n]
         units == [j \in 1..Len(F.units) |-> IF F.units[j][1] = "S" THEN [k |-> "stmt", id |-> F.units[j][2]] ELSE [k |-> "ret", id |-> F.units[j][2]]]
         fw == Fwd(b)
     IN IF Len(fw) = 2 THEN
           IF ~VisibleFrom(H, root, lvl, fw[1], 64) \/ ~VisibleFrom(H, root, lvl, fw[2], 64) THEN [code |-> <<>>, st |-> [s0 EXCEPT !.fail = TRUE]]
           ELSE LET g1 == Gen(H, root, flat, lvl, fw[1], s0)
                    g2 == Gen(H, root, flat, lvl, fw[2], g1.st)
                IN [code |-> Append(units, [k |-> "if", test |-> [k |-> "opaque", id |-> F.test], body |-> g1.code, orelse |-> g2.code]), st |-> g2.st]
        ELSE IF Len(b.jt) = 1 /\ Len(units) > 0 /\ units[Len(units)].k = "ret" THEN
           \* a returning block that now continues to the common exit: the value goes to the return variable
           [code |-> SubSeq(units, 1, Len(units) - 1) \o <<[k |-> "retval", id |-> units[Len(units)].id]>>, st |-> s0]
        ELSE IF Len(b.jt) = 1 \/ Len(fw) = 0 THEN [code |-> units, st |-> s0]
        ELSE [code |-> <<>>, st |-> [s0 EXCEPT !.fail = TRUE]]                       \* NotImplementedError
  ELSE IF b.k = "region" THEN
     IF b.rk \in {"head", "tail", "branch"} THEN GenView(H, root, flat, n, ViewOrder(H, n), 1, [code |-> <<>>, st |-> s0])
     ELSE IF b.rk = "loop" THEN
        LET s1 == [s0 EXCEPT !.cnt = @ + 1]
            flag == Flag(s1.cnt)
            body == GenView(H, root, flat, n, ViewOrder(H, n), 1, [code |-> <<>>, st |-> s1])
        IN [code |-> <<[k |-> "setbool", var |-> flag, val |-> TRUE], [k |-> "while", var |-> flag, body |-> body.code]>>, st |-> body.st]
     ELSE [code |-> <<>>, st |-> [s0 EXCEPT !.fail = TRUE]]
  ELSE IF b.k = "assign" THEN [code |-> [j \in 1..Len(b.asg) |-> [k |-> "asg", var |-> b.asg[j][1], val |-> b.asg[j][2]]], st |-> s0]
  ELSE IF b.k = "tail" THEN [code |-> <<>>, st |-> s0]
  ELSE IF b.k = "fill" THEN [code |-> <<>>, st |-> s0]                                \* `pass`
  ELSE IF b.k = "return" THEN [code |-> <<Item("return")>>, st |-> s0]
  ELSE IF b.k = "latch" THEN
     IF Len(Fwd(b)) # 1 \/ Len(b.be) # 1 THEN [code |-> <<>>, st |-> [s0 EXCEPT !.fail = TRUE]]
     ELSE [code |-> <<[k |-> "setnot", var |-> Flag(s0.cnt), src |-> b.var]>>, st |-> [s0 EXCEPT !.cnt = @ - 1]]
  ELSE IF b.k \in {"exitbranch", "head"} THEN Cascade(H, root, flat, lvl, n, Fwd(b), s0)
  ELSE [code |-> <<>>, st |-> [s0 EXCEPT !.fail = TRUE]]                              \* SyntheticExit etc.: not implemented

\* linear emission of a region's own level in view order, branch regions skipped (they are generated from their head)
GenView(H, root, flat, r, order, j, acc) ==
  IF j > Len(order) \/ acc.st.fail THEN acc
  ELSE LET n == order[j] IN
       IF H[n].k = "region" /\ H[n].rk = "branch" THEN GenView(H, root, flat, r, order, j + 1, acc)
       ELSE LET g == Gen(H, root, flat, r, n, acc.st) IN GenView(H, root, flat, r, order, j + 1, [code |-> acc.code \o g.code, st |-> g.st])

\* if-cascade over the targets in their order; the last one is the final else
Cascade(H, root, flat, lvl, n, tg, st) ==
  IF tg = <<>> THEN [code |-> <<>>, st |-> [st EXCEPT !.fail = TRUE]]
  ELSE IF ~VisibleFrom(H, root, lvl, tg[1], 64) THEN [code |-> <<>>, st |-> [st EXCEPT !.fail = TRUE]]
  ELSE IF Len(tg) = 1 THEN Gen(H, root, flat, lvl, tg[1], st)
  ELSE LET b == H[n]
           vals == [j \in 1..Len(SelectSeq(b.tab, LAMBDA e : e[2] = tg[1])) |-> SelectSeq(b.tab, LAMBDA e : e[2] = tg[1])[j][1]]
           g1 == Gen(H, root, flat, lvl, tg[1], st)
           g2 == Cascade(H, root, flat, lvl, n, Tail(tg), g1.st)
       IN [code |-> <<[k |-> "if", test |-> [k |-> "in", var |-> b.var, vals |-> vals], body |-> g1.code, orelse |-> g2.code]>>, st |-> g2.st]

Code(H, root, flat) ==
  LET r == GenView(H, root, flat, root, ViewOrder(H, root), 1, [code |-> <<>>, st |-> [cnt |-> 0, fail |-> FALSE, fuel |-> 4000]])
  IN [code |-> r.code, fail |-> r.st.fail]
=============================================================================
