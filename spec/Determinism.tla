---------------------------- MODULE Determinism ----------------------------
(***************************************************************************)
(* C12 as a 2-safety property by self-composition: the same input is run   *)
(* in separate processes under different string-hash seeds; run 1 is the   *)
(* reference and every other run is walked in lockstep with it.  The       *)
(* invariant SameEvent fails at the FIRST operation whose recorded event   *)
(* (names, arguments, ordered delta, counters - rendered canonically with  *)
(* dictionary insertion order made explicit) differs.                      *)
(*   Runs[k][t].events : sequence of canonical event strings of input t    *)
(*   under the k-th seed.  The LAST run is not another seed but another    *)
(*   run in one process: the graph is restructured twice from the same     *)
(*   block objects and the second run is the recorded one ("the same input *)
(*   graph always yields the identical result" also means that a run       *)
(*   leaves nothing behind, in the blocks it was given or anywhere else).  *)
(***************************************************************************)
EXTENDS Naturals, Sequences, TLC, Json, IOUtils

Runs == JsonDeserialize(IOEnv.RUNS)

VARIABLES tid, other, l, bad
vars == <<tid, other, l, bad>>

Ref(t) == Runs[1][t].events
Oth(k, t) == Runs[k][t].events

Init == /\ tid \in 1..Len(Runs[1])
        /\ other \in 2..Len(Runs)
        /\ l = 0
        /\ bad = IF Len(Ref(tid)) # Len(Oth(other, tid)) THEN "different-number-of-events" ELSE "ok"
Next == /\ bad = "ok"
        /\ l < Len(Ref(tid))
        /\ l' = l + 1
        /\ bad' = IF l + 1 <= Len(Oth(other, tid)) /\ Ref(tid)[l + 1] = Oth(other, tid)[l + 1] THEN "ok" ELSE "event-differs"
        /\ UNCHANGED <<tid, other>>
SameEvent == bad = "ok"
=============================================================================
