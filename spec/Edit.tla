------------------------------- MODULE Edit -------------------------------
(***************************************************************************)
(* E1 for histories (C14, with C18's NoClobber on the way): TLC explores   *)
(* every history of edit operations up to MAXDEPTH from every seed state,  *)
(* with EVERY choice of level, ordered predecessors P and successors S,    *)
(* taking the Impl transcription as the step and evaluating the contract   *)
(* (EditPost) on every transition:  Impl => Post.                          *)
(*                                                                         *)
(* The same state graph drives E3: every state carries its seed and its    *)
(* history, the harness replays the history into real SCFG objects and     *)
(* compares the projected state with H and ng (conformance of the Impl     *)
(* layer with the code).                                                   *)
(***************************************************************************)
EXTENDS Impl, EditPost, Json, IOUtils

Seeds    == JsonDeserialize(IOEnv.SEEDS)      \* [[H, ng, root], ...]
Rank     == JsonDeserialize(IOEnv.RANK)       \* name -> position in Python's sorted()
MaxDepth == atoi(IOEnv.MAXDEPTH)
MaxP     == atoi(IOEnv.MAXP)
MaxS     == atoi(IOEnv.MAXS)
Ops      == IOEnv.OPS                         \* enabled operations, one letter each: B(lock) C(trl) T(ails) R(eturns)

VARIABLES seed, hist, H, ng, bad
vars == <<seed, hist, H, ng, bad>>

Root == Seeds[seed].root
NgOf(rec) == [k \in NgKinds |-> IF k \in DOMAIN rec THEN rec[k] ELSE 0]

\* sequences without repetition, length <= k
RECURSIVE OrdSeqs(_, _)
OrdSeqs(S, k) == IF k = 0 THEN {<<>>}
                 ELSE LET shorter == OrdSeqs(S, k - 1) IN
                      shorter \cup {Append(q, x) : q \in {r \in shorter : Len(r) = k - 1}, x \in S}
NoRep(q) == \A i, j \in 1..Len(q) : i # j => q[i] # q[j]
PickSeqs(S, k) == {q \in OrdSeqs(S, k) : NoRep(q)}

Levels == {Root} \cup Regions(H)
Universe(l) == Level(H, l) \cup UNION {SeqSet(H[n].jt) : n \in Level(H, l)}
\* the block type the library's own callers would use for this shape
TypeFor(P, S) == IF S = <<>> THEN "return" ELSE IF Len(P) >= 2 THEN "tail" ELSE IF Len(S) >= 2 THEN "exit" ELSE "fill"
KindOfType(ty) == CASE ty = "return" -> "synth_return" [] ty = "tail" -> "synth_tail" [] ty = "exit" -> "synth_exit" [] OTHER -> "synth_fill"

Step(op, l, P, S, r, failed, post) ==
  /\ hist' = Append(hist, [op |-> op, lvl |-> l, P |-> P, S |-> S])
  /\ H' = r.H
  /\ ng' = r.ng
  /\ bad' = (IF failed THEN {"Impl-aborts"} ELSE post) \cup (IF HasFail(r.H) THEN {"Impl-aborts"} ELSE {})
  /\ UNCHANGED seed

DoInsertBlock(l, P, S) ==
  LET ty == TypeFor(P, S)
      nb == NewBlock(ng, KindOfType(ty))
      K  == InsertBlock(H, l, nb[1], P, S, ty)
  IN Step("insert_block", l, P, S, [H |-> K, ng |-> nb[2]], FALSE,
          (IF nb[1] \in DOMAIN H THEN {"NameClobbers"} ELSE {}) \cup InsertBlockFailed(H, K, l, nb[1], P, S, ty))

DoInsertCtl(l, P, S) ==
  LET nb == NewBlock(ng, "synth_head")
      r  == InsertCtl(H, nb[2], l, nb[1], P, S, Rank)
  IN Step("insert_ctl", l, P, S, r, FALSE,
          (IF nb[1] \in DOMAIN H \/ (DOMAIN r.H \ DOMAIN H) \cap DOMAIN H # {} THEN {"NameClobbers"} ELSE {})
          \cup InsertCtlFailed(H, r.H, l, nb[1], P, S))

DoJoinTailsExits(l, T, X) ==
  LET r == JoinTailsExits(H, ng, l, T, X)
  IN Step("join_tails_exits", l, T, X, r, r.fail, IF r.fail THEN {} ELSE JT_Failed(H, r.H, l, T, X, r.ret))

DoJoinReturns ==
  \* dict order of the root level is not part of the abstract state: the result does not depend on it
  LET order == Sorted(Level(H, Root), Rank)
      r == JoinReturns(H, ng, Root, order)
  IN Step("join_returns", Root, <<>>, <<>>, r, FALSE, JR_Failed(H, r.H, Root))

Init == /\ seed \in 1..Len(Seeds)
        /\ hist = <<>>
        /\ H = Seeds[seed].H
        /\ ng = NgOf(Seeds[seed].ng)
        /\ bad = {}

Enabled(op) == LET letter == CASE op = "insert_block" -> "B" [] op = "insert_ctl" -> "C" [] op = "join_tails_exits" -> "T" [] OTHER -> "R"
               IN Ops \in {x \o letter \o y : x \in {"", "B", "BC", "BCT", "C", "CT", "T", "BT"}, y \in {"", "C", "CT", "CTR", "T", "TR", "R", "CR"}}

Next ==
  /\ Len(hist) < MaxDepth
  /\ bad = {}
  /\ \/ \E l \in Levels : \E P \in PickSeqs(Level(H, l), MaxP), S \in PickSeqs(Universe(l), MaxS) :
          \/ Enabled("insert_block") /\ DoInsertBlock(l, P, S)
          \/ Enabled("insert_ctl") /\ S # <<>> /\ DoInsertCtl(l, P, S)
          \/ Enabled("join_tails_exits") /\ P # <<>> /\ S # <<>> /\ DoJoinTailsExits(l, P, S)
     \/ Enabled("join_returns") /\ DoJoinReturns

ImplMeetsPost == bad = {}
=============================================================================
