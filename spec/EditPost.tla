----------------------------- MODULE EditPost -----------------------------
(***************************************************************************)
(* Contract layer for the graph edit primitives (C14): what inserting a    *)
(* block between P and S, inserting a block with control blocks, closing   *)
(* the graph and joining tails and exits are REQUIRED to do, as predicates *)
(* over a pre-state H and a post-state K.  Nothing here mentions how the   *)
(* code achieves it.  Each ...Failed operator returns the names of the     *)
(* false clauses.                                                          *)
(***************************************************************************)
EXTENDS Graph

TabSet(b) == {<<b.tab[j][1], b.tab[j][2]>> : j \in 1..Len(b.tab)}
\* the record without the fields an edit may legitimately rewrite
Core(b) == [f \in (DOMAIN b) \ {"jt", "tab"} |-> b[f]]

\* Replace every member of S in seq by `new`, keeping the first occurrence of `new` only
RECURSIVE CollapseF(_, _, _, _, _)
CollapseF(seq, S, new, acc, j) ==
  IF j > Len(seq) THEN acc
  ELSE LET t == IF seq[j] \in S THEN new ELSE seq[j] IN
       CollapseF(seq, S, new, IF t = new /\ new \in SeqSet(acc) THEN acc ELSE Append(acc, t), j + 1)
Collapse(seq, S, new) == CollapseF(seq, S, new, <<>>, 1)

\* the exiting chain strictly below region r
ChainBelow(H, r) == ExitChain(H, r) \ {r}
AllChains(H, P) == UNION {IF H[p].k = "region" THEN ChainBelow(H, p) ELSE {} : p \in SeqSet(P)}

(* ------------------------------------------------------------------------
   insert_block(new, P, S, ty):
   every former arc from P into S runs through `new`, whose successors are
   exactly S; no other arc, no other block and not the order of a
   predecessor's remaining successors changes.
   ------------------------------------------------------------------------ *)
IB_NewBlock(H, K, l, new, P, S, ty) ==
  new \notin DOMAIN H /\ new \in DOMAIN K /\ K[new].k = ty /\ K[new].jt = S /\ K[new].be = <<>> /\ K[new].up = l
IB_Domain(H, K, new) == DOMAIN K = DOMAIN H \cup {new}
IB_OthersUntouched(H, K, P) ==
  \A n \in DOMAIN H \ (SeqSet(P) \cup AllChains(H, P)) : n \in DOMAIN K /\ K[n] = H[n]
\* forward targets of a predecessor: the arcs into S are replaced by ONE arc to `new`, the remaining successors keep
\* their order (the position of `new` among them is not prescribed); S empty: `new` is added after the existing ones
ArcsOK(old, cur, new, S) ==
  IF S = <<>> THEN cur = Append(old, new)
  ELSE /\ Without(cur, {new}) = Without(old, SeqSet(S))
       /\ Cardinality({j \in 1..Len(cur) : cur[j] = new}) = (IF SeqSet(old) \cap SeqSet(S) # {} THEN 1 ELSE 0)
IB_PredArcs(H, K, new, P, S) ==
  \A p \in SeqSet(P) : p \in DOMAIN K => ArcsOK(Fwd(H[p]), Fwd(K[p]), new, S)
\* declared back edges (and their raw targets) of a predecessor survive
IB_BackEdgesKept(H, K, P) ==
  \A p \in SeqSet(P) \cup AllChains(H, P) : p \in DOMAIN K =>
     K[p].be = H[p].be /\ SeqSet(H[p].be) \subseteq SeqSet(K[p].jt)
\* nothing else of a predecessor changes; a branching predecessor keeps its keys, targets in S now name `new`
IB_PredRest(H, K, new, P, S) ==
  \A p \in SeqSet(P) \cup AllChains(H, P) : p \in DOMAIN K =>
     /\ Core(K[p]) = Core(H[p])
     /\ H[p].k \in BranchKinds =>
          TabSet(K[p]) = {<<e[1], IF e[2] \in SeqSet(S) /\ e[2] \notin SeqSet(H[p].be) THEN new ELSE e[2]>> : e \in TabSet(H[p])}
\* a region predecessor: the same re-targeting reaches its exiting block(s), recursively
IB_RegionChain(H, K, new, P, S) ==
  \A x \in AllChains(H, P) : x \in DOMAIN K => ArcsOK(Fwd(H[x]), Fwd(K[x]), new, S)
InsertBlockFailed(H, K, l, new, P, S, ty) ==
  {c \in {"NewBlock", "Domain", "OthersUntouched", "PredArcs", "BackEdgesKept", "PredRest", "RegionChain"} :
     ~ CASE c = "NewBlock" -> IB_NewBlock(H, K, l, new, P, S, ty)
         [] c = "Domain" -> IB_Domain(H, K, new)
         [] c = "OthersUntouched" -> IB_OthersUntouched(H, K, P)
         [] c = "PredArcs" -> IB_PredArcs(H, K, new, P, S)
         [] c = "BackEdgesKept" -> IB_BackEdgesKept(H, K, P)
         [] c = "PredRest" -> IB_PredRest(H, K, new, P, S)
         [] c = "RegionChain" -> IB_RegionChain(H, K, new, P, S)}

(* ------------------------------------------------------------------------
   insert_block_and_control_blocks(new, P, S):
   `new` is a branching head over S; each rerouted arc gets its own
   assignment block whose value selects, in the head's table, that arc's
   original target - so the paths between pre-existing blocks are unchanged.
   ------------------------------------------------------------------------ *)
Added(H, K) == DOMAIN K \ DOMAIN H
IC_Head(H, K, l, new, S) ==
  /\ new \notin DOMAIN H /\ new \in DOMAIN K /\ K[new].k = "head" /\ K[new].jt = S /\ K[new].be = <<>> /\ K[new].up = l
  /\ {e[2] : e \in TabSet(K[new])} \subseteq SeqSet(S)
  /\ \A e1, e2 \in TabSet(K[new]) : e1[1] = e2[1] => e1 = e2
IC_OnlyAssignsAdded(H, K, l, new) ==
  /\ DOMAIN H \subseteq DOMAIN K
  /\ \A a \in Added(H, K) \ {new} : K[a].k = "assign" /\ K[a].jt = <<new>> /\ K[a].be = <<>> /\ K[a].up = l
                                      /\ Len(K[a].asg) = 1 /\ K[a].asg[1][1] = K[new].var
IC_OthersUntouched(H, K, P) == IB_OthersUntouched(H, K, P)
\* follow one arc of the post-state through the inserted blocks
ThroughNew(K, new, t) ==
  IF t \in DOMAIN K /\ K[t].k = "assign" /\ K[t].jt = <<new>> /\ Len(K[t].asg) = 1
  THEN LET hits == {e \in TabSet(K[new]) : e[1] = K[t].asg[1][2]} IN
       IF Cardinality(hits) = 1 THEN (CHOOSE e \in hits : TRUE)[2] ELSE "?"
  ELSE t
\* position-wise: arcs into S go through a fresh assignment block and come out at the old target; other arcs unchanged
IC_PredArcs(H, K, new, P, S) ==
  \A p \in SeqSet(P) \cup AllChains(H, P) : p \in DOMAIN K =>
     LET old == Fwd(H[p]) cur == Fwd(K[p]) IN
     /\ Len(cur) = Len(old)
     /\ \A i \in 1..Len(old) : i <= Len(cur) =>
          IF old[i] \in SeqSet(S)
          THEN cur[i] \in Added(H, K) \ {new} /\ ThroughNew(K, new, cur[i]) = old[i]
          ELSE cur[i] = old[i]
\* each rerouted arc of a top-level predecessor has its OWN assignment block
IC_OwnAssign(H, K, new, P, S) ==
  LET arcs == {<<p, i>> \in SeqSet(P) \X (1..8) : p \in DOMAIN K /\ i <= Len(Fwd(H[p])) /\ i <= Len(Fwd(K[p])) /\ Fwd(H[p])[i] \in SeqSet(S)}
  IN /\ \A a1, a2 \in arcs : a1 # a2 => Fwd(K[a1[1]])[a1[2]] # Fwd(K[a2[1]])[a2[2]]
     /\ Cardinality(Added(H, K) \ {new}) = Cardinality(arcs)
IC_PredRest(H, K, new, P, S) ==
  \A p \in SeqSet(P) \cup AllChains(H, P) : p \in DOMAIN K =>
     /\ Core(K[p]) = Core(H[p]) /\ SeqSet(H[p].be) \subseteq SeqSet(K[p].jt)
     /\ H[p].k \in BranchKinds =>
          /\ {e[1] : e \in TabSet(K[p])} = {e[1] : e \in TabSet(H[p])}
          /\ \A e \in TabSet(H[p]) : \A f \in TabSet(K[p]) : f[1] = e[1] =>
                IF e[2] \in SeqSet(S) /\ e[2] \notin SeqSet(H[p].be)
                THEN f[2] \in Added(H, K) /\ ThroughNew(K, new, f[2]) = e[2]
                ELSE f[2] = e[2]
InsertCtlFailed(H, K, l, new, P, S) ==
  {c \in {"Head", "OnlyAssignsAdded", "OthersUntouched", "PredArcs", "OwnAssign", "PredRest"} :
     ~ CASE c = "Head" -> IC_Head(H, K, l, new, S)
         [] c = "OnlyAssignsAdded" -> IC_Head(H, K, l, new, S) => IC_OnlyAssignsAdded(H, K, l, new)
         [] c = "OthersUntouched" -> IC_OthersUntouched(H, K, P)
         [] c = "PredArcs" -> IC_Head(H, K, l, new, S) => IC_PredArcs(H, K, new, P, S)
         [] c = "OwnAssign" -> IC_OwnAssign(H, K, new, P, S)
         [] c = "PredRest" -> IC_Head(H, K, l, new, S) => IC_PredRest(H, K, new, P, S)}

(* ------------------------------------------------------------------------
   join_returns: exactly one exit afterwards, reached from every former exit;
   a no-op when there is at most one.
   ------------------------------------------------------------------------ *)
ExitsOf(H, l) == {n \in Level(H, l) : Fwd(H[n]) = <<>>}
JR_Failed(H, K, l) ==
  LET ex == ExitsOf(H, l) IN
  IF Cardinality(ex) <= 1 THEN (IF K = H THEN {} ELSE {"NoOpWhenClosed"})
  ELSE {c \in {"OneExit", "ReachedFromFormerExits", "OneReturnBlockAdded", "OthersUntouched"} :
          ~ CASE c = "OneExit" -> Cardinality(ExitsOf(K, l)) = 1
              [] c = "OneReturnBlockAdded" -> Cardinality(Added(H, K)) = 1 /\ DOMAIN H \subseteq DOMAIN K
                                                /\ \A a \in Added(H, K) : K[a].k = "return" /\ K[a].jt = <<>> /\ K[a].up = l
              [] c = "ReachedFromFormerExits" -> \A e \in ex : e \in DOMAIN K /\ Len(K[e].jt) = 1 /\ K[e].jt[1] \in Added(H, K) /\ Core(K[e]) = Core(H[e])
              [] c = "OthersUntouched" -> \A n \in DOMAIN H \ ex : n \in DOMAIN K /\ K[n] = H[n]}

(* ------------------------------------------------------------------------
   join_tails_and_exits(T, X) -> <<tail, exit>>: one tail and one exit
   through which every given tail-to-exit arc passes.
   ------------------------------------------------------------------------ *)
JT_ArcOK(H, K, t, x, tail, exit) ==
  LET A == Added(H, K) IN
  \/ A = {} /\ tail = t /\ exit = x /\ x \in SeqSet(Fwd(K[t]))
  \/ \E a \in A : /\ a \in SeqSet(Fwd(K[t])) /\ x \in SeqSet(K[a].jt) /\ x \notin SeqSet(Fwd(K[t]))
                   /\ ((tail = t /\ exit = a) \/ (tail = a /\ exit = x))
  \/ \E a, b \in A : /\ a # b /\ a \in SeqSet(Fwd(K[t])) /\ K[a].jt = <<b>> /\ x \in SeqSet(K[b].jt)
                      /\ x \notin SeqSet(Fwd(K[t])) /\ tail = a /\ exit = b
JT_Failed(H, K, l, T, X, ret) ==
  IF Len(ret) # 2 THEN {"ReturnsTailAndExit"}
  ELSE LET tail == ret[1] exit == ret[2] A == Added(H, K) IN
  {c \in {"TailAndExitExist", "ArcsPassTailThenExit", "OtherArcsKept", "OnlyPlainBlocksAdded", "OthersUntouched"} :
     ~ CASE c = "TailAndExitExist" -> tail \in DOMAIN K /\ exit \in DOMAIN K
         [] c = "ArcsPassTailThenExit" ->
              \A t \in SeqSet(T) : t \in DOMAIN K =>
                 \A x \in SeqSet(Fwd(H[t])) \cap SeqSet(X) : JT_ArcOK(H, K, t, x, tail, exit)
         [] c = "OtherArcsKept" ->
              \A t \in SeqSet(T) : t \in DOMAIN K =>
                 Without(Fwd(K[t]), A) = Without(Fwd(H[t]), IF A = {} THEN {} ELSE SeqSet(X))
         [] c = "OnlyPlainBlocksAdded" -> DOMAIN H \subseteq DOMAIN K /\ Cardinality(A) <= 2
                                           /\ \A a \in A : K[a].k \in {"tail", "exit"} /\ K[a].up = l /\ K[a].be = <<>>
         [] c = "OthersUntouched" -> \A n \in DOMAIN H \ (SeqSet(T) \cup AllChains(H, T)) : n \in DOMAIN K /\ K[n] = H[n]}
=============================================================================
