----------------------------- MODULE EditTrace -----------------------------
(***************************************************************************)
(* E2 for the edit primitives (C14): every recorded call of an edit        *)
(* primitive on real objects - pre-state, arguments, recorded delta - is   *)
(* checked against the primitive's contract (EditPost).  The post-state is *)
(* the pre-state with the recorded delta applied; nothing of the Impl      *)
(* layer is involved, so a false clause here is a statement about the code. *)
(*   Cases[i] = [op, lvl, new, P, S, ty, ret, exc, H, put, del]             *)
(***************************************************************************)
EXTENDS EditPost, Json, IOUtils

Cases == JsonDeserialize(IOEnv.CASES)

VARIABLES tid, bad

Post(c) == [n \in (DOMAIN c.H \ SeqSet(c.del)) \cup DOMAIN c.put |-> IF n \in DOMAIN c.put THEN c.put[n] ELSE c.H[n]]

Verdict(c) ==
  IF c.exc # "" THEN {"Raises"}
  ELSE LET K == Post(c) IN
       CASE c.op = "insert_block" -> InsertBlockFailed(c.H, K, c.lvl, c.new, c.P, c.S, c.ty)
         [] c.op = "insert_ctl" -> InsertCtlFailed(c.H, K, c.lvl, c.new, c.P, c.S)
         [] c.op = "join_returns" -> JR_Failed(c.H, K, c.lvl)
         [] c.op = "join_tails_exits" -> JT_Failed(c.H, K, c.lvl, c.P, c.S, c.ret)
         [] OTHER -> {"MACHINERY-unknown-op"}

Init == /\ tid \in 1..Len(Cases)
        /\ bad = Verdict(Cases[tid])
Next == UNCHANGED <<tid, bad>>
Holds == bad = {}
=============================================================================
