----------------------------- MODULE EditViews -----------------------------
(***************************************************************************)
(* C16 on graphs that were EDITED after (or between) restructuring stages: *)
(* TLC enumerates one-step edit histories from seed states (Edit.tla: every *)
(* level, every ordered P and S within bounds); each history is replayed on *)
(* real SCFG objects and list(scfg) / every level's concealed view are      *)
(* recorded from the real result.  A case is                                 *)
(*   [root, Hs (the specification's post-state), H (the REAL post-state),   *)
(*    dup, hook (the recorded iteration and views)].                         *)
(* The contract (Props!FailedViews) is evaluated on the real state whenever *)
(* the edit itself is one after which the statement applies: the            *)
(* specification's post-state is a well-formed hierarchy in which every     *)
(* level has one head from which all its items are reachable (an insertion  *)
(* that orphans its new block, or rewires a region's exit from the inside,  *)
(* is a misuse of the primitive, not a graph the views are specified on).   *)
(***************************************************************************)
EXTENDS Props, Json, IOUtils

Cases == JsonDeserialize(IOEnv.CASES)
Which == IOEnv.WHICH          \* "views" (C16) | "wf" (C04: the hierarchy stays self-consistent after an edit) | "tables" (C06: every table entry names a successor, every successor is named - after EVERY renaming)
VARIABLES tid, bad

RECURSIVE GrowL(_, _, _, _)
GrowL(H, l, seen, fr) ==
  IF fr = {} THEN seen
  ELSE LET nw == ((UNION {SeqSet(Fwd(H[u])) : u \in fr}) \cap Level(H, l)) \ seen IN GrowL(H, l, seen \cup nw, nw)
LevelOK(H, l) == /\ Cardinality(HeadsOf(H, l)) = 1
                 /\ GrowL(H, l, HeadsOf(H, l), HeadsOf(H, l)) = Level(H, l)
Applies(c) == LET s == [H |-> c.Hs, root |-> c.root, dup |-> <<>>] IN
              /\ WellFormed(s)
              /\ \A l \in {c.root} \cup Regions(c.Hs) : LevelOK(c.Hs, l)
              /\ (Which = "tables" => FailedTables(c.Hs) = {})      \* an edit after which even the specified result has a table that
                                                                  \* misses a successor (S with a member no arc of P enters) is a misuse
Verdict(c) == IF ~Applies(c) THEN {"n/a"}
              ELSE IF Which = "tables" THEN FailedTables(c.H)
              ELSE IF Which = "wf" THEN FailedWF([H |-> c.H, root |-> c.root, dup |-> c.dup])
              ELSE FailedViews(c.hook, [H |-> c.H, root |-> c.root, dup |-> c.dup])

Init == /\ tid \in 1..Len(Cases)
        /\ bad = Verdict(Cases[tid])
Next == UNCHANGED <<tid, bad>>
Holds == bad = {} \/ bad = {"n/a"}
Applicable == bad # {"n/a"}          \* counted by the harness (TLC reports it as a 'violation' of ~Applicable): vacuity guard
=============================================================================
