------------------------------- MODULE Equiv -------------------------------
(***************************************************************************)
(* C07 / C08 are relational: the regenerated function (C07) / the block-wise *)
(* interpretation of the built graph (C08) must show, for every argument     *)
(* tuple, the same sequence of calls to external functions and the same      *)
(* result or exception type as the original.  For functions whose syntax the *)
(* abstract reference semantics does not model (harness/exotic.py) the two   *)
(* recorded executions are compared in lockstep - self-composition, as in    *)
(* Determinism.tla: the state is the position in both event sequences, the   *)
(* invariant says the events at that position agree, and at the end the      *)
(* outcomes agree.  A refusal of the whole pipeline is allowed, an internal  *)
(* error is not.                                                              *)
(*   Cases[i] = [outcome, runs : Seq([oev, oout, xev, xout])]                 *)
(***************************************************************************)
EXTENDS Naturals, Sequences, TLC, Json, IOUtils

Cases == JsonDeserialize(IOEnv.CASES)
VARIABLES tid, rid, l, bad
vars == <<tid, rid, l, bad>>

Run(t, r) == Cases[t].runs[r]
Init == /\ tid \in 1..Len(Cases)
        /\ IF Cases[tid].outcome = "internal" THEN rid = 0 /\ l = 0 /\ bad = "InternalError"
           ELSE IF Cases[tid].outcome # "ok" \/ Cases[tid].runs = <<>> THEN rid = 0 /\ l = 0 /\ bad = "ok"
           ELSE rid \in 1..Len(Cases[tid].runs) /\ l = 0 /\ bad = "ok"
\* one step = one external call of the original, matched against the other execution
Next ==
  /\ bad = "ok" /\ rid > 0
  /\ LET r == Run(tid, rid) IN
     IF l < Len(r.oev) /\ l < Len(r.xev)
     THEN /\ l' = l + 1
          /\ bad' = IF r.oev[l + 1] = r.xev[l + 1] THEN "ok" ELSE "Events"
          /\ UNCHANGED <<tid, rid>>
     ELSE /\ l' = l
          /\ bad' = IF Len(r.oev) # Len(r.xev) THEN "Events" ELSE IF r.oout # r.xout THEN "Outcome" ELSE "done"
          /\ UNCHANGED <<tid, rid>>
Holds == bad \in {"ok", "done"}
Small == [tid |-> tid, rid |-> rid, l |-> l, bad |-> bad]
=============================================================================
