------------------------------- MODULE Graph -------------------------------
(***************************************************************************)
(* Abstract state of a numba_scfg hierarchy (DESIGN 3.1) and declarative   *)
(* graph theory on it.  A hierarchy is a function                           *)
(*     H : Name -> [k, jt, be, up, nm, pay, (asg | var, tab | rk, header,   *)
(*                  exiting, pp, sr)]                                       *)
(* Names are strings; `root` is the name of the meta region.  Everything   *)
(* here is a definition (no algorithm of the library is transcribed in      *)
(* this module): it is the vocabulary of the contract layer.                *)
(***************************************************************************)
EXTENDS Naturals, Integers, Sequences, FiniteSets, TLC, SequencesExt, FiniteSetsExt

SeqSet(s) == {s[j] : j \in 1..Len(s)}
Without(s, X) == SelectSeq(s, LAMBDA x : x \notin X)
NoDupSeq(s) == \A i, j \in 1..Len(s) : i # j => s[i] # s[j]
IndexOf(s, x) == CHOOSE j \in 1..Len(s) : s[j] = x /\ \A m \in 1..(j-1) : s[m] # x

\* BasicBlock.jump_targets: raw targets minus declared back edges, order kept
Fwd(b) == Without(b.jt, SeqSet(b.be))

BranchKinds == {"head", "latch", "exitbranch", "branch"}
SynthKinds  == {"assign", "head", "latch", "exitbranch", "branch", "tail", "exit", "fill", "return", "synth"}
PlainKinds  == {"basic", "bytecode", "ast"}

Regions(H)  == {n \in DOMAIN H : H[n].k = "region"}
Level(H, l) == {n \in DOMAIN H : H[n].up = l}

\* levels enclosing (and including) level l, innermost first
RECURSIVE EnclosingSeq(_, _, _, _)
EnclosingSeq(H, root, l, fuel) ==
  IF l = root \/ l \notin DOMAIN H \/ fuel = 0 THEN <<l>>
  ELSE <<l>> \o EnclosingSeq(H, root, H[l].up, fuel - 1)
Enclosing(H, root, l) == SeqSet(EnclosingSeq(H, root, l, Cardinality(DOMAIN H) + 1))

\* innermost exiting / header block of a (possibly nested) region; "?" when broken
RECURSIVE InnerExitingF(_, _, _), InnerHeaderF(_, _, _)
InnerExitingF(H, r, fuel) ==
  IF r \notin DOMAIN H \/ fuel = 0 THEN "?"
  ELSE IF H[r].k = "region" THEN InnerExitingF(H, H[r].exiting, fuel - 1) ELSE r
InnerHeaderF(H, r, fuel) ==
  IF r \notin DOMAIN H \/ fuel = 0 THEN "?"
  ELSE IF H[r].k = "region" THEN InnerHeaderF(H, H[r].header, fuel - 1) ELSE r
InnerExiting(H, r) == InnerExitingF(H, r, Cardinality(DOMAIN H) + 1)
InnerHeader(H, r)  == InnerHeaderF(H, r, Cardinality(DOMAIN H) + 1)

\* the declared headers below r: header(r), header(header(r)), ... down to the innermost block
RECURSIVE HeaderChainF(_, _, _)
HeaderChainF(H, r, fuel) ==
  IF r \notin DOMAIN H \/ fuel = 0 \/ H[r].k # "region" THEN {}
  ELSE {H[r].header} \cup HeaderChainF(H, H[r].header, fuel - 1)
HeaderChain(H, r) == HeaderChainF(H, r, Cardinality(DOMAIN H) + 1)

\* the chain r, exiting(r), exiting(exiting(r)), ... down to the innermost block
RECURSIVE ExitChainF(_, _, _)
ExitChainF(H, r, fuel) ==
  IF r \notin DOMAIN H \/ fuel = 0 THEN {}
  ELSE IF H[r].k = "region" THEN {r} \cup ExitChainF(H, H[r].exiting, fuel - 1) ELSE {r}
ExitChain(H, r) == ExitChainF(H, r, Cardinality(DOMAIN H) + 1)

\* all names (blocks and regions) strictly inside region r, at any depth
RECURSIVE InsideF(_, _, _)
InsideF(H, r, fuel) ==
  IF fuel = 0 THEN {}
  ELSE LET kids == Level(H, r) IN kids \cup UNION {InsideF(H, c, fuel - 1) : c \in kids \cap Regions(H)}
Inside(H, r) == InsideF(H, r, Cardinality(DOMAIN H) + 1)

(***************************************************************************)
(* Reachability on an adjacency function A : node -> set of nodes.          *)
(***************************************************************************)
RECURSIVE Grow(_, _, _)
Grow(A, seen, fr) ==
  IF fr = {} THEN seen
  ELSE LET nw == (UNION {A[u] : u \in fr}) \ seen IN Grow(A, seen \cup nw, nw \cap DOMAIN A)
\* nodes reachable from u by a path of at least one edge
ReachPlus(A, u) == Grow(A, A[u], A[u] \cap DOMAIN A)
ReachFun(A) == [u \in DOMAIN A |-> ReachPlus(A, u)]
Acyclic(A) == LET R == ReachFun(A) IN \A u \in DOMAIN A : u \notin R[u]
\* maximal sets of mutually reachable nodes (every node is in exactly one)
SCCs(A) == LET R == ReachFun(A)
               scc(u) == {u} \cup {v \in DOMAIN A : v \in R[u] /\ u \in R[v]}
           IN {scc(u) : u \in DOMAIN A}
\* the nontrivial ones: more than one node, or a self loop
Cycles(A) == {S \in SCCs(A) : Cardinality(S) > 1 \/ \E u \in S : u \in A[u]}

\* forward adjacency of a level (edges staying inside the level)
AdjLevel(H, l) == LET Lv == Level(H, l) IN [u \in Lv |-> SeqSet(Fwd(H[u])) \cap Lv]
\* adjacency of a plain successor table  orig : name -> Seq(name)
AdjOrig(orig) == [u \in DOMAIN orig |-> SeqSet(orig[u])]

(***************************************************************************)
(* The input domain (DESIGN section 9) as a TLA+ set: closed CFGs over     *)
(* nodes 0..N-1 with entry 0.  g : 0..N-1 -> Seq(1..N-1).                  *)
(***************************************************************************)
SuccChoices(N) == {<<>>} \cup {<<a>> : a \in 1..(N-1)}
                  \cup {<<p[1], p[2]>> : p \in {q \in (1..(N-1)) \X (1..(N-1)) : q[1] # q[2]}}
ClosedG(g) ==
  LET Nodes == DOMAIN g
      A == [u \in Nodes |-> SeqSet(g[u])]
      R == ReachFun(A)
      exits == {u \in Nodes : g[u] = <<>>}
  IN /\ \A u \in Nodes : 0 \notin A[u]
     /\ \A u \in Nodes \ {0} : u \in R[0]
     /\ \A u \in Nodes : u \in exits \/ R[u] \cap exits # {}
ClosedCFG(N) == {g \in [0..(N-1) -> SuccChoices(N)] : ClosedG(g)}
=============================================================================
