------------------------------- MODULE Impl -------------------------------
(***************************************************************************)
(* Impl layer ("layer R"): executable, deterministic transcriptions of the *)
(* library's graph-mutating primitives, one operator per function, at the  *)
(* granularity of the code's own primitives.  They say WHAT THE CODE DOES  *)
(* (as of the repaired tree); what it is REQUIRED to do is the contract    *)
(* layer (Props.tla, the ...Post predicates of Edit.tla).  A disagreement  *)
(* between these operators and the code is DRIFT, never a VIOLATION.       *)
(*                                                                         *)
(* State: H (flat hierarchy, see Graph.tla), ng (name-generator counters,  *)
(* a function kind -> Nat with every kind present), rank (name -> Nat, the *)
(* order Python's sorted() gives to the names involved).                   *)
(***************************************************************************)
EXTENDS Graph

Put(H, n, r) == [x \in DOMAIN H \cup {n} |-> IF x = n THEN r ELSE H[x]]
Sorted(S, rank) == SetToSortSeq(S, LAMBDA a, b : rank[a] < rank[b])
Rename(s, a, b) == [j \in 1..Len(s) |-> IF s[j] = a THEN b ELSE s[j]]
RECURSIVE DedupF(_, _, _)
DedupF(s, acc, j) == IF j > Len(s) THEN acc ELSE DedupF(s, IF s[j] \in SeqSet(acc) THEN acc ELSE Append(acc, s[j]), j + 1)
Dedup(s) == DedupF(s, <<>>, 1)

(****************************** name generator ****************************)
NgKinds == {"synth_head", "synth_asign", "synth_exit_latch", "synth_exit", "synth_tail", "synth_fill", "synth_return",
            "exit", "backedge", "control", "loop", "head", "branch", "tail", "meta", "python_bytecode", "basic"}
Ng0 == [k \in NgKinds |-> IF k = "meta" THEN 1 ELSE 0]
NewBlock(ng, kind)  == <<kind \o "_block_" \o ToString(ng[kind]), [ng EXCEPT ![kind] = @ + 1]>>
NewRegion(ng, kind) == <<kind \o "_region_" \o ToString(ng[kind]), [ng EXCEPT ![kind] = @ + 1]>>
NewVar(ng, kind)    == <<"__scfg_" \o kind \o "_var_" \o ToString(ng[kind]) \o "__", [ng EXCEPT ![kind] = @ + 1]>>

(********************* replace_jump_targets, per block type ***************)
\* BasicBlock: plain replacement.  SyntheticBranch: also rewrites the value table; the table is rebuilt
\* grouped by old target (dict insertion order), one replaced target -> the single new name, several
\* replaced targets -> positional (the repaired behaviour); "FAIL" where the code still asserts.
ReplaceJT(b, njt) ==
  IF b.k \notin BranchKinds THEN [b EXCEPT !.jt = njt]
  ELSE LET old == Dedup(b.jt)
           diff == SeqSet(njt) \ SeqSet(b.jt)
           removed == {t \in SeqSet(old) : t \notin SeqSet(njt)}
       IN IF removed # {} /\ Cardinality(diff) # 1 /\ Len(njt) # Len(b.jt) THEN [b EXCEPT !.k = "FAIL"]
          ELSE LET repl(t) == IF Cardinality(diff) = 1 THEN CHOOSE x \in diff : TRUE ELSE njt[IndexOf(b.jt, t)]
                   part(t) == LET sel == SelectSeq(b.tab, LAMBDA e : e[2] = t)
                              IN [j \in 1..Len(sel) |-> <<sel[j][1], IF t \in removed THEN repl(t) ELSE t>>]
               IN [b EXCEPT !.jt = njt, !.tab = FlattenSeq([j \in 1..Len(old) |-> part(old[j])])]

(************* _retarget_exiting (keeps a region's exiting chain in sync) **)
\* ren : function old name -> new name (as a set of pairs <<old, new>>); app : names appended
RenOf(ren, t) == IF \E p \in ren : p[1] = t THEN (CHOOSE p \in ren : p[1] = t)[2] ELSE t
RECURSIVE RetargetSeq(_, _, _, _, _)
RetargetSeq(jt, be, ren, acc, j) ==
  IF j > Len(jt) THEN acc
  ELSE LET t == jt[j] IN
       IF (\E p \in ren : p[1] = t) /\ t \notin SeqSet(be)
       THEN LET n == RenOf(ren, t) IN RetargetSeq(jt, be, ren, IF n \in SeqSet(acc) THEN acc ELSE Append(acc, n), j + 1)
       ELSE RetargetSeq(jt, be, ren, Append(acc, t), j + 1)
RECURSIVE RetargetExiting(_, _, _, _, _)
RetargetExiting(H, r, ren, app, fuel) ==
  IF fuel = 0 \/ H[r].exiting \notin DOMAIN H THEN H
  ELSE LET x == H[r].exiting
           njt == RetargetSeq(H[x].jt, H[x].be, ren, <<>>, 1) \o app
           H1 == [H EXCEPT ![x] = ReplaceJT(@, njt)]
       IN IF H1[x].k = "region" THEN RetargetExiting(H1, x, ren, app, fuel - 1) ELSE H1

(****************************** insert_block ******************************)
\* only forward arcs are re-targeted; declared back edges keep their place among the raw targets
RECURSIVE RetargetRaw(_, _, _, _, _)
RetargetRaw(jt, be, S, new, j) ==
  IF j > Len(S) THEN jt
  ELSE IF S[j] \notin SeqSet(jt) \/ S[j] \in SeqSet(be) THEN RetargetRaw(jt, be, S, new, j + 1)
  ELSE LET k == IndexOf(jt, S[j]) IN
       IF new \notin SeqSet(jt) THEN RetargetRaw([jt EXCEPT ![k] = new], be, S, new, j + 1)
       ELSE RetargetRaw(SubSeq(jt, 1, k - 1) \o SubSeq(jt, k + 1, Len(jt)), be, S, new, j + 1)
InsertBlock(H0, l, new, P, S, ty) ==
  LET blk == [k |-> ty, jt |-> S, be |-> <<>>, up |-> l]
      NewJt(b) == IF Len(S) = 0 THEN Append(b.jt, new) ELSE RetargetRaw(b.jt, b.be, S, new, 1)
      ren == {<<S[j], new>> : j \in 1..Len(S)}
      app == IF Len(S) = 0 THEN <<new>> ELSE <<>>
      RECURSIVE PerPred(_, _)
      PerPred(H, j) ==
        IF j > Len(P) THEN H
        ELSE LET p == P[j]
                 H1 == IF H[p].k = "region" THEN RetargetExiting(H, p, ren, app, Cardinality(DOMAIN H)) ELSE H
             IN PerPred([H1 EXCEPT ![p] = ReplaceJT(@, NewJt(@))], j + 1)
  IN PerPred(Put(H0, new, blk), 1)

(********************* insert_block_and_control_blocks ********************)
InsertCtl(H0, ng0, l, new, P, S, rank) ==
  LET v0 == NewVar(ng0, "control")
      var == v0[1]
      RECURSIVE PerPred(_, _), PerSucc(_, _, _, _)
      \* st = [H, ng, val, tab, jt, ren]
      PerSucc(st, name, ss, j) ==
        IF j > Len(ss) THEN st
        ELSE LET nb == NewBlock(st.ng, "synth_asign")
                 a == nb[1]
                 blk == [k |-> "assign", jt |-> <<new>>, be |-> <<>>, up |-> l, asg |-> <<<<var, st.val>>>>]
                 jt == st.jt
             IN PerSucc([st EXCEPT !.H = Put(@, a, blk), !.ng = nb[2], !.tab = Append(@, <<st.val, ss[j]>>),
                                   !.val = @ + 1, !.jt = [jt EXCEPT ![IndexOf(jt, ss[j])] = a],
                                   !.ren = @ \cup {<<ss[j], a>>}], name, ss, j + 1)
      PerPred(st, j) ==
        IF j > Len(P) THEN st
        ELSE LET name == P[j]
                 jt0 == st.H[name].jt
                 ss == Sorted(SeqSet(Fwd(st.H[name])) \cap SeqSet(S), rank)
                 st1 == PerSucc([st EXCEPT !.jt = jt0, !.ren = {}], name, ss, 1)
                 H1 == IF st1.H[name].k = "region" THEN RetargetExiting(st1.H, name, st1.ren, <<>>, Cardinality(DOMAIN st1.H)) ELSE st1.H
             IN PerPred([st1 EXCEPT !.H = [H1 EXCEPT ![name] = ReplaceJT(@, st1.jt)]], j + 1)
      fin == PerPred([H |-> H0, ng |-> v0[2], val |-> 0, tab |-> <<>>, jt |-> <<>>, ren |-> {}], 1)
      head == [k |-> "head", jt |-> S, be |-> <<>>, up |-> l, var |-> var, tab |-> fin.tab]
  IN [H |-> Put(fin.H, new, head), ng |-> fin.ng]

(************************ join_returns, join_tails_and_exits **************)
\* return nodes in dict order = `order` (sequence of names of the level)
JoinReturns(H, ng, l, order) ==
  LET rets == SelectSeq(order, LAMBDA n : n \in DOMAIN H /\ Fwd(H[n]) = <<>>) IN
  IF Len(rets) > 1 THEN LET nb == NewBlock(ng, "synth_return") IN [H |-> InsertBlock(H, l, nb[1], rets, <<>>, "return"), ng |-> nb[2]]
  ELSE [H |-> H, ng |-> ng]

JoinTailsExits(H0, ng0, l, tails, exits) ==
  IF Len(tails) = 1 /\ Len(exits) = 1 THEN [H |-> H0, ng |-> ng0, ret |-> <<tails[1], exits[1]>>, fail |-> FALSE]
  ELSE IF Len(tails) = 1 /\ Len(exits) >= 2 THEN
       LET nb == NewBlock(ng0, "synth_exit") IN [H |-> InsertBlock(H0, l, nb[1], tails, exits, "exit"), ng |-> nb[2], ret |-> <<tails[1], nb[1]>>, fail |-> FALSE]
  ELSE IF Len(tails) >= 2 /\ Len(exits) = 1 THEN
       LET nb == NewBlock(ng0, "synth_tail") IN [H |-> InsertBlock(H0, l, nb[1], tails, exits, "tail"), ng |-> nb[2], ret |-> <<nb[1], exits[1]>>, fail |-> FALSE]
  ELSE IF Len(tails) >= 2 /\ Len(exits) >= 2 THEN
       LET nt == NewBlock(ng0, "synth_tail")
           nx == NewBlock(nt[2], "synth_exit")
           H1 == InsertBlock(H0, l, nt[1], tails, exits, "tail")
       IN [H |-> InsertBlock(H1, l, nx[1], <<nt[1]>>, exits, "exit"), ng |-> nx[2], ret |-> <<nt[1], nx[1]>>, fail |-> FALSE]
  ELSE [H |-> H0, ng |-> ng0, ret |-> <<>>, fail |-> TRUE]

HasFail(H) == \E n \in DOMAIN H : H[n].k = "FAIL"
=============================================================================
