------------------------------- MODULE Impl -------------------------------
(***************************************************************************)
(* Impl layer ("layer R"): executable, deterministic transcriptions of the *)
(* library's graph-mutating primitives, one operator per function, at the  *)
(* granularity of the code's own primitives.  They say WHAT THE CODE DOES  *)
(* (as of the repaired tree); what it is REQUIRED to do is the contract    *)
(* layer (Props.tla, the ...Post predicates of Edit.tla).  A disagreement  *)
(* between these operators and the code is DRIFT, never a VIOLATION.       *)
(*                                                                         *)
(* State: H (flat hierarchy, see Graph.tla), ng (name-generator counters,  *)
(* a function kind -> Nat with every kind present), rank (name -> Nat, the *)
(* order Python's sorted() gives to the names involved).                   *)
(***************************************************************************)
EXTENDS Graph

Put(H, n, r) == [x \in DOMAIN H \cup {n} |-> IF x = n THEN r ELSE H[x]]
Sorted(S, rank) == SetToSortSeq(S, LAMBDA a, b : rank[a] < rank[b])
Rename(s, a, b) == [j \in 1..Len(s) |-> IF s[j] = a THEN b ELSE s[j]]
RECURSIVE DedupF(_, _, _)
DedupF(s, acc, j) == IF j > Len(s) THEN acc ELSE DedupF(s, IF s[j] \in SeqSet(acc) THEN acc ELSE Append(acc, s[j]), j + 1)
Dedup(s) == DedupF(s, <<>>, 1)

(****************************** name generator ****************************)
NgKinds == {"synth_head", "synth_asign", "synth_exit_latch", "synth_exit", "synth_tail", "synth_fill", "synth_return",
            "exit", "backedge", "control", "loop", "head", "branch", "tail", "meta", "python_bytecode", "basic"}
Ng0 == [k \in NgKinds |-> IF k = "meta" THEN 1 ELSE 0]
NewBlock(ng, kind)  == <<kind \o "_block_" \o ToString(ng[kind]), [ng EXCEPT ![kind] = @ + 1]>>
NewRegion(ng, kind) == <<kind \o "_region_" \o ToString(ng[kind]), [ng EXCEPT ![kind] = @ + 1]>>
NewVar(ng, kind)    == <<"__scfg_" \o kind \o "_var_" \o ToString(ng[kind]) \o "__", [ng EXCEPT ![kind] = @ + 1]>>

(********************* replace_jump_targets, per block type ***************)
\* BasicBlock: plain replacement.  SyntheticBranch: also rewrites the value table; the table is rebuilt
\* grouped by old target (dict insertion order), one replaced target -> the single new name, several
\* replaced targets -> positional (the repaired behaviour); "FAIL" where the code still asserts.
ReplaceJT(b, njt) ==
  IF b.k \notin BranchKinds THEN [b EXCEPT !.jt = njt]
  ELSE LET old == Dedup(b.jt)
           diff == SeqSet(njt) \ SeqSet(b.jt)
           removed == {t \in SeqSet(old) : t \notin SeqSet(njt)}
       IN IF removed # {} /\ Cardinality(diff) # 1 /\ Len(njt) # Len(b.jt) THEN [b EXCEPT !.k = "FAIL"]
          ELSE LET repl(t) == IF Cardinality(diff) = 1 THEN CHOOSE x \in diff : TRUE ELSE njt[IndexOf(b.jt, t)]
                   part(t) == LET sel == SelectSeq(b.tab, LAMBDA e : e[2] = t)
                              IN [j \in 1..Len(sel) |-> <<sel[j][1], IF t \in removed THEN repl(t) ELSE t>>]
               IN [b EXCEPT !.jt = njt, !.tab = FlattenSeq([j \in 1..Len(old) |-> part(old[j])])]

(************* _retarget_exiting (keeps a region's exiting chain in sync) **)
\* ren : function old name -> new name (as a set of pairs <<old, new>>); app : names appended
RenOf(ren, t) == IF \E p \in ren : p[1] = t THEN (CHOOSE p \in ren : p[1] = t)[2] ELSE t
RECURSIVE RetargetSeq(_, _, _, _, _)
RetargetSeq(jt, be, ren, acc, j) ==
  IF j > Len(jt) THEN acc
  ELSE LET t == jt[j] IN
       IF (\E p \in ren : p[1] = t) /\ t \notin SeqSet(be)
       THEN LET n == RenOf(ren, t) IN RetargetSeq(jt, be, ren, IF n \in SeqSet(acc) THEN acc ELSE Append(acc, n), j + 1)
       ELSE RetargetSeq(jt, be, ren, Append(acc, t), j + 1)
RECURSIVE RetargetExiting(_, _, _, _, _)
RetargetExiting(H, r, ren, app, fuel) ==
  IF fuel = 0 \/ H[r].exiting \notin DOMAIN H THEN H
  ELSE LET x == H[r].exiting
           njt == RetargetSeq(H[x].jt, H[x].be, ren, <<>>, 1) \o app
           H1 == [H EXCEPT ![x] = ReplaceJT(@, njt)]
       IN IF H1[x].k = "region" THEN RetargetExiting(H1, x, ren, app, fuel - 1) ELSE H1

(****************************** insert_block ******************************)
\* only forward arcs are re-targeted; declared back edges keep their place among the raw targets
RECURSIVE RetargetRaw(_, _, _, _, _)
RetargetRaw(jt, be, S, new, j) ==
  IF j > Len(S) THEN jt
  ELSE IF S[j] \notin SeqSet(jt) \/ S[j] \in SeqSet(be) THEN RetargetRaw(jt, be, S, new, j + 1)
  ELSE LET k == IndexOf(jt, S[j]) IN
       IF new \notin SeqSet(jt) THEN RetargetRaw([jt EXCEPT ![k] = new], be, S, new, j + 1)
       ELSE RetargetRaw(SubSeq(jt, 1, k - 1) \o SubSeq(jt, k + 1, Len(jt)), be, S, new, j + 1)
InsertBlock(H0, l, new, P, S, ty) ==
  LET blk == [k |-> ty, jt |-> S, be |-> <<>>, up |-> l]
      NewJt(b) == IF Len(S) = 0 THEN Append(b.jt, new) ELSE RetargetRaw(b.jt, b.be, S, new, 1)
      ren == {<<S[j], new>> : j \in 1..Len(S)}
      app == IF Len(S) = 0 THEN <<new>> ELSE <<>>
      RECURSIVE PerPred(_, _)
      PerPred(H, j) ==
        IF j > Len(P) THEN H
        ELSE LET p == P[j]
                 H1 == IF H[p].k = "region" THEN RetargetExiting(H, p, ren, app, Cardinality(DOMAIN H)) ELSE H
             IN PerPred([H1 EXCEPT ![p] = ReplaceJT(@, NewJt(@))], j + 1)
  IN PerPred(Put(H0, new, blk), 1)

(********************* insert_block_and_control_blocks ********************)
InsertCtl(H0, ng0, l, new, P, S, rank) ==
  LET v0 == NewVar(ng0, "control")
      var == v0[1]
      RECURSIVE PerPred(_, _), PerSucc(_, _, _, _)
      \* st = [H, ng, val, tab, jt, ren]
      PerSucc(st, name, ss, j) ==
        IF j > Len(ss) THEN st
        ELSE LET nb == NewBlock(st.ng, "synth_asign")
                 a == nb[1]
                 blk == [k |-> "assign", jt |-> <<new>>, be |-> <<>>, up |-> l, asg |-> <<<<var, st.val>>>>]
                 jt == st.jt
             IN PerSucc([st EXCEPT !.H = Put(@, a, blk), !.ng = nb[2], !.tab = Append(@, <<st.val, ss[j]>>),
                                   !.val = @ + 1, !.jt = [jt EXCEPT ![IndexOf(jt, ss[j])] = a],
                                   !.ren = @ \cup {<<ss[j], a>>}], name, ss, j + 1)
      PerPred(st, j) ==
        IF j > Len(P) THEN st
        ELSE LET name == P[j]
                 jt0 == st.H[name].jt
                 ss == Sorted(SeqSet(Fwd(st.H[name])) \cap SeqSet(S), rank)
                 st1 == PerSucc([st EXCEPT !.jt = jt0, !.ren = {}], name, ss, 1)
                 H1 == IF st1.H[name].k = "region" THEN RetargetExiting(st1.H, name, st1.ren, <<>>, Cardinality(DOMAIN st1.H)) ELSE st1.H
             IN PerPred([st1 EXCEPT !.H = [H1 EXCEPT ![name] = ReplaceJT(@, st1.jt)]], j + 1)
      fin == PerPred([H |-> H0, ng |-> v0[2], val |-> 0, tab |-> <<>>, jt |-> <<>>, ren |-> {}], 1)
      head == [k |-> "head", jt |-> S, be |-> <<>>, up |-> l, var |-> var, tab |-> fin.tab]
  IN [H |-> Put(fin.H, new, head), ng |-> fin.ng]

(************************ join_returns, join_tails_and_exits **************)
\* return nodes in dict order = `order` (sequence of names of the level)
JoinReturns(H, ng, l, order) ==
  LET rets == SelectSeq(order, LAMBDA n : n \in DOMAIN H /\ Fwd(H[n]) = <<>>) IN
  IF Len(rets) > 1 THEN LET nb == NewBlock(ng, "synth_return") IN [H |-> InsertBlock(H, l, nb[1], rets, <<>>, "return"), ng |-> nb[2]]
  ELSE [H |-> H, ng |-> ng]

JoinTailsExits(H0, ng0, l, tails, exits) ==
  IF Len(tails) = 1 /\ Len(exits) = 1 THEN [H |-> H0, ng |-> ng0, ret |-> <<tails[1], exits[1]>>, fail |-> FALSE]
  ELSE IF Len(tails) = 1 /\ Len(exits) >= 2 THEN
       LET nb == NewBlock(ng0, "synth_exit") IN [H |-> InsertBlock(H0, l, nb[1], tails, exits, "exit"), ng |-> nb[2], ret |-> <<tails[1], nb[1]>>, fail |-> FALSE]
  ELSE IF Len(tails) >= 2 /\ Len(exits) = 1 THEN
       LET nb == NewBlock(ng0, "synth_tail") IN [H |-> InsertBlock(H0, l, nb[1], tails, exits, "tail"), ng |-> nb[2], ret |-> <<nb[1], exits[1]>>, fail |-> FALSE]
  ELSE IF Len(tails) >= 2 /\ Len(exits) >= 2 THEN
       LET nt == NewBlock(ng0, "synth_tail")
           nx == NewBlock(nt[2], "synth_exit")
           H1 == InsertBlock(H0, l, nt[1], tails, exits, "tail")
       IN [H |-> InsertBlock(H1, l, nx[1], <<nt[1]>>, exits, "exit"), ng |-> nx[2], ret |-> <<nt[1], nx[1]>>, fail |-> FALSE]
  ELSE [H |-> H0, ng |-> ng0, ret |-> <<>>, fail |-> TRUE]

HasFail(H) == \E n \in DOMAIN H : H[n].k = "FAIL"

(***************************************************************************)
(* Queries (transcribed; their agreement with the definitions is C13)      *)
(***************************************************************************)
FwdPreds(H, l, v) == {u \in Level(H, l) : v \in SeqSet(Fwd(H[u]))}
HeadOf(H, l) == LET hs == {h \in Level(H, l) : FwdPreds(H, l, h) = {}} IN IF Cardinality(hs) = 1 THEN CHOOSE h \in hs : TRUE ELSE "?"
\* find_headers_and_entries: raw targets of the blocks outside `sub`; no header -> the head of the level, no entries at this level
HeadersEntries(H, l, sub, rank) ==
  LET outside == Level(H, l) \ sub
      hdr == UNION {sub \cap SeqSet(H[o].jt) : o \in outside}
      ent == {o \in outside : sub \cap SeqSet(H[o].jt) # {}}
  IN IF hdr # {} THEN <<Sorted(hdr, rank), Sorted(ent, rank)>> ELSE <<<<HeadOf(H, l)>>, <<>>>>
ExitingExits(H, sub, rank) ==
  LET exiting == {n \in sub : Fwd(H[n]) = <<>> \/ \E t \in SeqSet(Fwd(H[n])) : t \notin sub}
      exits == UNION {SeqSet(Fwd(H[n])) \ sub : n \in sub}
  IN <<Sorted(exiting, rank), Sorted(exits, rank)>>
\* dominance on a level (forward edges inside the level), computed once per state
Adj(H, l) == LET Lv == Level(H, l) IN [u \in Lv |-> SeqSet(Fwd(H[u])) \cap Lv]
RevAdj(A) == [v \in DOMAIN A |-> {u \in DOMAIN A : v \in A[u]}]
RECURSIVE GrowA(_, _, _, _)
GrowA(A, seen, fr, avoid) ==
  IF fr = {} THEN seen
  ELSE LET nw == (UNION {A[u] : u \in fr}) \ (seen \cup {avoid}) IN GrowA(A, seen \cup nw, nw, avoid)
DomFun(A) ==
  LET R == RevAdj(A)
      roots == {e \in DOMAIN A : R[e] = {}}
      reachAvoid == [a \in DOMAIN A |-> GrowA(A, roots \ {a}, roots \ {a}, a)]
  IN [b \in DOMAIN A |-> {b} \cup {a \in DOMAIN A : a # b /\ b \notin reachAvoid[a]}]
IDomFrom(D, k) ==
  LET sd == D[k] \ {k}
      c == {d \in sd : \A d2 \in sd : d2 \in D[d]}
  IN IF Cardinality(c) = 1 THEN CHOOSE d \in c : TRUE ELSE "?"
\* region-concealing BFS order of a level
RECURSIVE BFS(_, _, _, _, _)
BFS(H, l, q, seen, out) ==
  IF q = <<>> THEN out
  ELSE LET n == Head(q) rest == Tail(q) IN
       IF n \in seen THEN BFS(H, l, rest, seen, out)
       ELSE IF n \notin Level(H, l) THEN BFS(H, l, rest, seen \cup {n}, out)
       ELSE LET nxt == IF H[n].k = "region" THEN (IF H[n].exiting \in DOMAIN H THEN Fwd(H[H[n].exiting]) ELSE <<>>) ELSE Fwd(H[n])
            IN BFS(H, l, rest \o nxt, seen \cup {n}, Append(out, n))
ViewOrder(H, l) == IF HeadOf(H, l) = "?" THEN <<>> ELSE BFS(H, l, <<HeadOf(H, l)>>, {}, <<>>)
\* is_reachable_dfs: a path of >= 1 forward edge, expanding only names present at the level
RECURSIVE GrowFwd(_, _, _, _)
GrowFwd(H, l, seen, fr) ==
  IF fr = {} THEN seen
  ELSE LET nw == (UNION {SeqSet(Fwd(H[u])) : u \in fr \cap Level(H, l)}) \ seen IN GrowFwd(H, l, seen \cup nw, nw)
Reachable(H, l, a, b) == LET s0 == SeqSet(Fwd(H[a])) IN b \in GrowFwd(H, l, s0, s0)

(***************************************************************************)
(* extract_region (+ update_exiting)                                       *)
(***************************************************************************)
RenameIn(b, hdr, rn) == [ReplaceJT(b, Rename(b.jt, hdr, rn)) EXCEPT !.be = Rename(b.be, hdr, rn)]
RECURSIVE UpdExiting(_, _, _, _, _)
UpdExiting(H, r, hdr, rn, fuel) ==
  IF fuel = 0 \/ H[r].exiting \notin DOMAIN H THEN H
  ELSE LET x == H[r].exiting
           H1 == [H EXCEPT ![x] = RenameIn(@, hdr, rn)]
       IN IF H1[x].k = "region" THEN UpdExiting(H1, x, hdr, rn, fuel - 1) ELSE H1
Extract(H0, ng0, l, blocks, kind, rank) ==
  LET he == HeadersEntries(H0, l, blocks, rank)
      ee == ExitingExits(H0, blocks, rank)
      hdr == he[1][1]
      xit == IF ee[1] = <<>> THEN "?" ELSE ee[1][1]
      nr == NewRegion(ng0, kind)
      rn == nr[1]
      ng1 == [nr[2] EXCEPT !["meta"] = @ + 1]        \* SCFG(...) of the sub-graph draws a meta region name
      entries == SelectSeq(he[2], LAMBDA e : e \in Level(H0, l))
      RECURSIVE PerEntry(_, _)
      PerEntry(H, j) ==
        IF j > Len(entries) THEN H
        ELSE LET e == entries[j]
                 H1 == [H EXCEPT ![e] = RenameIn(@, hdr, rn)]
             IN PerEntry(IF H1[e].k = "region" THEN UpdExiting(H1, e, hdr, rn, Cardinality(DOMAIN H1)) ELSE H1, j + 1)
      ok == Len(he[1]) = 1 /\ Len(ee[1]) = 1 /\ hdr # "?"
  IN IF ~ok THEN [H |-> H0, ng |-> ng0, ok |-> FALSE]
     ELSE
     LET H1 == PerEntry(H0, 1)
         reg == [k |-> "region", jt |-> Fwd(H1[xit]), be |-> <<>>, up |-> l, rk |-> kind, header |-> hdr, exiting |-> xit, pp |-> l, sr |-> rn]
         H2 == [n \in DOMAIN H1 \cup {rn} |->
                  IF n = rn THEN reg
                  ELSE IF n \in blocks THEN (IF H1[n].k = "region" THEN [H1[n] EXCEPT !.up = rn, !.pp = rn] ELSE [H1[n] EXCEPT !.up = rn])
                  ELSE IF n = l THEN [H1[n] EXCEPT !.header = IF @ = hdr THEN rn ELSE @, !.exiting = IF @ = xit THEN rn ELSE @]
                  ELSE H1[n]]
     IN [H |-> H2, ng |-> ng1, ok |-> TRUE]

(***************************************************************************)
(* loop_restructure_helper                                                 *)
(***************************************************************************)
RevLookup(tab, v) == LET J == {j \in 1..Len(tab) : tab[j][2] = v} IN IF J = {} THEN -1 ELSE tab[Min(J)][1]
DomsOf(H, l, b) == DomFun(Adj(H, l))[b]
LoopRotate(H0, ng0, l, loop0, rank) ==
  LET he == HeadersEntries(H0, l, loop0, rank)
      headers == he[1]
      ee == ExitingExits(H0, loop0, rank)
      exiting == ee[1]
      exits == ee[2]
      unified == Len(headers) > 1
      nbh == NewBlock(ng0, "synth_head")
      ctl == InsertCtl(H0, nbh[2], l, nbh[1], he[2], headers, rank)
      H1 == IF unified THEN ctl.H ELSE H0
      ng1 == IF unified THEN ctl.ng ELSE ng0
      head == IF unified THEN nbh[1] ELSE headers[1]
      loop1 == IF unified THEN loop0 \cup {head} ELSE loop0
      beblocks == {b \in loop1 : SeqSet(headers) \cap SeqSet(Fwd(H1[b])) # {}}
      D == DomFun(Adj(H1, l))
  IN
  IF Cardinality(beblocks) = 1 /\ Len(exiting) = 1 /\ beblocks = {exiting[1]}
  THEN LET b == exiting[1] IN
       [H |-> IF head \in SeqSet(Fwd(H1[b])) THEN [H1 EXCEPT ![b].be = <<head>>] ELSE H1, ng |-> ng1, loop |-> loop1, fail |-> FALSE]
  ELSE IF exits = <<>> THEN [H |-> H1, ng |-> ng1, loop |-> loop1, fail |-> TRUE]      \* next(iter(exit_blocks)) raises
  ELSE
  LET nbl == NewBlock(ng1, "synth_exit_latch")
      latch == nbl[1]
      needs == Len(exits) > 1
      nbx == IF needs THEN NewBlock(nbl[2], "synth_exit") ELSE <<"", nbl[2]>>
      xv == IF unified THEN <<H1[head].var, nbx[2]>> ELSE NewVar(nbx[2], "exit")
      bv == NewVar(xv[2], "backedge")
      exitTarget == IF needs THEN nbx[1] ELSE exits[1]
      exitTab == [j \in 1..Len(exits) |-> <<j - 1, exits[j]>>]
      beTab == <<<<0, head>>, <<1, exitTarget>>>>
      hdrTab == IF unified THEN H1[head].tab ELSE <<>>
      names == Sorted(loop1, rank)
      RECURSIVE PerName(_, _), PerTarget(_, _, _, _)
      \* st = [H, ng, njt, new]
      PerTarget(st, name, tg, j) ==
        IF j > Len(tg) THEN st
        ELSE LET t == tg[j] IN
             IF t \in SeqSet(exits) THEN
                LET nb == NewBlock(st.ng, "synth_asign")
                    asg == (IF needs THEN <<<<xv[1], RevLookup(exitTab, t)>>>> ELSE <<>>) \o <<<<bv[1], 1>>>>
                    blk == [k |-> "assign", jt |-> <<latch>>, be |-> <<>>, up |-> l, asg |-> asg]
                IN PerTarget([st EXCEPT !.H = Put(@, nb[1], blk), !.ng = nb[2], !.new = @ \cup {nb[1]},
                                        !.njt = [@ EXCEPT ![IndexOf(@, t)] = nb[1]]], name, tg, j + 1)
             ELSE IF t \in SeqSet(headers) /\ (name \notin D[t] \/ name = t) THEN
                LET nb == NewBlock(st.ng, "synth_asign")
                    asg == <<<<bv[1], 0>>>> \o (IF needs \/ unified THEN <<<<xv[1], RevLookup(hdrTab, t)>>>> ELSE <<>>)
                    blk == [k |-> "assign", jt |-> <<latch>>, be |-> <<>>, up |-> l, asg |-> asg]
                    inter == ReplaceJT(st.H[name], Without(Fwd(st.H[name]), SeqSet(headers)))
                IN PerTarget([st EXCEPT !.H = Put([@ EXCEPT ![name] = inter], nb[1], blk), !.ng = nb[2], !.new = @ \cup {nb[1]},
                                        !.njt = [@ EXCEPT ![IndexOf(@, t)] = nb[1]]], name, tg, j + 1)
             ELSE PerTarget(st, name, tg, j + 1)
      PerName(st, j) ==
        IF j > Len(names) THEN st
        ELSE LET name == names[j] IN
             IF name \in SeqSet(exiting) \/ name \in beblocks THEN
                LET tg == Fwd(st.H[name])
                    st1 == PerTarget([st EXCEPT !.njt = tg], name, tg, 1)
                IN PerName([st1 EXCEPT !.H = [@ EXCEPT ![name] = ReplaceJT(@, st1.njt)]], j + 1)
             ELSE PerName(st, j + 1)
      fin == PerName([H |-> H1, ng |-> bv[2], njt |-> <<>>, new |-> {}], 1)
      latchBlk == [k |-> "latch", jt |-> <<exitTarget, head>>, be |-> <<head>>, up |-> l, var |-> bv[1], tab |-> beTab]
      H2 == Put(fin.H, latch, latchBlk)
      H3 == IF needs THEN Put(H2, nbx[1], [k |-> "exitbranch", jt |-> exits, be |-> <<>>, up |-> l, var |-> xv[1], tab |-> exitTab]) ELSE H2
  IN [H |-> H3, ng |-> fin.ng, loop |-> loop1 \cup fin.new \cup {latch}, fail |-> FALSE]

(***************************************************************************)
(* restructure_branch (one call = one level)                               *)
(***************************************************************************)
BranchBeginEnd(H, l) ==
  LET vo == ViewOrder(H, l)
      A == Adj(H, l)
      D == DomFun(A)
      PD == DomFun(RevAdj(A))
      ok(b) == /\ Len(Fwd(H[b])) > 1
               /\ LET e == IDomFrom(PD, b) IN e # "?" /\ IDomFrom(D, e) = b
      J == {j \in 1..Len(vo) : ok(vo[j])}
  IN IF J = {} THEN <<>> ELSE LET b == vo[Min(J)] IN <<b, IDomFrom(PD, b)>>
RECURSIVE ChainTo(_, _, _, _, _)
ChainTo(H, cur, begin, acc, fuel) ==
  IF cur = begin \/ fuel = 0 \/ cur \notin DOMAIN H \/ Len(Fwd(H[cur])) # 1 THEN acc \cup {cur}
  ELSE ChainTo(H, Fwd(H[cur])[1], begin, acc \cup {cur}, fuel - 1)
HeadBlocks(H, l, begin) == ChainTo(H, HeadOf(H, l), begin, {}, Cardinality(DOMAIN H))
BranchRegions(H, l, begin, end) ==
  LET jts == Fwd(H[begin])
      D == DomFun(Adj(H, l)) IN
  [j \in 1..Len(jts) |->
     IF \E t \in SeqSet(jts) : t # jts[j] /\ Reachable(H, l, t, jts[j]) THEN <<>>
     ELSE <<jts[j], {k \in DOMAIN D : jts[j] \in D[k] /\ end \notin D[k]}>>]
TailBlocks(H, l, begin, hb, brs) ==
  ((Level(H, l) \ hb) \ (UNION {IF brs[j] = <<>> THEN {} ELSE {brs[j][1]} \cup brs[j][2] : j \in 1..Len(brs)})) \ {begin}
BranchPass(H0, ng0, l, rank) ==
  LET be == BranchBeginEnd(H0, l) IN
  IF be = <<>> THEN [H |-> H0, ng |-> ng0, fail |-> FALSE]
  ELSE
  LET begin == be[1]
      hb0 == HeadBlocks(H0, l, begin)
      br0 == BranchRegions(H0, l, begin, be[2])
      tb0 == TailBlocks(H0, l, begin, hb0, br0)
      he0 == HeadersEntries(H0, l, tb0, rank)
      uni == Len(he0[1]) > 1
      nbh == NewBlock(ng0, "synth_head")
      ctl == InsertCtl(H0, nbh[2], l, nbh[1], he0[2], he0[1], rank)
      H1 == IF uni THEN ctl.H ELSE H0
      ng1 == IF uni THEN ctl.ng ELSE ng0
      end == IF uni THEN nbh[1] ELSE be[2]
      hb1 == HeadBlocks(H1, l, begin)
      br1 == BranchRegions(H1, l, begin, end)
      tb1 == TailBlocks(H1, l, begin, hb1, br1)
      RECURSIVE Close(_, _)
      Close(st, j) ==
        IF j > Len(br1) \/ st.fail THEN st
        ELSE LET th == HeadersEntries(st.H, l, tb1, rank)[1] IN
             IF br1[j] = <<>> THEN
                LET nb == NewBlock(st.ng, "synth_fill")
                IN Close([H |-> InsertBlock(st.H, l, nb[1], <<begin>>, th, "fill"), ng |-> nb[2], fail |-> FALSE], j + 1)
             ELSE IF br1[j][2] = {} THEN Close(st, j + 1)
             ELSE LET r == JoinTailsExits(st.H, st.ng, l, ExitingExits(st.H, br1[j][2], rank)[1], th)
                  IN Close([H |-> r.H, ng |-> r.ng, fail |-> r.fail], j + 1)
      s2 == Close([H |-> H1, ng |-> ng1, fail |-> FALSE], 1)
      hb2 == HeadBlocks(s2.H, l, begin)
      br2 == BranchRegions(s2.H, l, begin, end)
      tb2 == TailBlocks(s2.H, l, begin, hb2, br2)
      x1 == Extract(s2.H, s2.ng, l, hb2, "head", rank)
      RECURSIVE Arms(_, _)
      Arms(st, j) ==
        IF j > Len(br2) \/ ~st.ok THEN st
        ELSE IF br2[j] = <<>> \/ br2[j][2] = {} THEN Arms(st, j + 1)
        ELSE Arms(Extract(st.H, st.ng, l, br2[j][2], "branch", rank), j + 1)
      s3 == Arms(x1, 1)
      x2 == IF s3.ok THEN Extract(s3.H, s3.ng, l, tb2, "tail", rank) ELSE s3
  IN [H |-> x2.H, ng |-> x2.ng, fail |-> s2.fail \/ ~x2.ok \/ HasFail(x2.H)]
=============================================================================
