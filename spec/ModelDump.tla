----------------------------- MODULE ModelDump -----------------------------
(***************************************************************************)
(* The hierarchies that the pipeline model (Pipeline.tla - the one whose     *)
(* results equal the real code's) builds from EVERY closed CFG of N nodes,   *)
(* written out as cases for Walk.tla: E4 on the DESIGN.  The same product    *)
(* exploration that judges the recorded states of the real code (both walks *)
(* of C01, the dynamic clauses of C06) then runs on states that no line of   *)
(* the library produced: TLC checking the specification itself - all inputs *)
(* of the small scope, all decision sequences.                               *)
(***************************************************************************)
EXTENDS Graph, Json, IOUtils
P == INSTANCE Pipeline

N     == atoi(IOEnv.N)
Shard == atoi(IOEnv.SHARD)          \* index into the successor choices of the entry node
Rank  == JsonDeserialize(IOEnv.RANK)

Nodes == 0..(N - 1)
Choices0 == SetToSortSeq(SuccChoices(N), LAMBDA a, b : IF Len(a) # Len(b) THEN Len(a) < Len(b)
                                                        ELSE IF Len(a) = 0 THEN FALSE
                                                        ELSE IF a[1] # b[1] THEN a[1] < b[1] ELSE (Len(a) = 2 /\ a[2] < b[2]))
MRoot == "meta_region_0"
NameOf(u) == ToString(u)
H0of(gg) == [n \in {NameOf(u) : u \in Nodes} |->
               LET u == CHOOSE u \in Nodes : NameOf(u) = n IN
               [k |-> "basic", jt |-> [j \in 1..Len(gg[u]) |-> NameOf(gg[u][j])], be |-> <<>>, up |-> MRoot]]
OrigOf(gg) == [n \in {NameOf(u) : u \in Nodes} |-> LET u == CHOOSE u \in Nodes : NameOf(u) = n IN [j \in 1..Len(gg[u]) |-> NameOf(gg[u][j])]]
Order0 == [i \in 1..N |-> NameOf(i - 1)]

Graphs == {g \in [Nodes -> SuccChoices(N)] : g[0] = Choices0[Shard] /\ ClosedG(g)}
CaseOf(gg) ==
  LET a == P!RunClosed(H0of(gg), Order0, MRoot, P!Ng0)
      b == P!LoopsFrom(a, MRoot, Rank)
      c == P!BranchesFrom(b, MRoot, Rank)
      ok(s) == ~s.fail /\ ~P!HasFail(s.H)
  IN [orig |-> OrigOf(gg), root |-> MRoot, entry |-> "0", g |-> gg,
      stages |-> <<[H |-> H0of(gg)], [H |-> a.H]>> \o (IF ok(b) THEN <<[H |-> b.H]>> \o (IF ok(c) THEN <<[H |-> c.H]>> ELSE <<>>) ELSE <<>>)]
ModelCases == LET gs == SetToSeq(Graphs) IN [j \in 1..Len(gs) |-> CaseOf(gs[j])]
VARIABLE done
Init == done = JsonSerialize(IOEnv.OUT, ModelCases)
Next == UNCHANGED done
\* every input reaches the last stage in the model (otherwise the walk would silently cover less)
AllStages == \A j \in 1..Len(ModelCases) : Len(ModelCases[j].stages) = 4
=============================================================================
