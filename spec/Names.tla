------------------------------- MODULE Names -------------------------------
(***************************************************************************)
(* C18: the name generator as a state machine.                             *)
(* A generated name is <<flavour, kind, index>> (block / region / variable *)
(* of a kind, numbered by the kind's counter; the three flavours share the *)
(* counter of their kind).  `present` are the names in the graph being     *)
(* transformed (block and region names and the control variables in use),  *)
(* `issued` the names handed out so far for this graph family (a graph and *)
(* its extracted sub-graphs share one generator, hence one `ctr`).         *)
(*                                                                         *)
(* Intended design (what the repaired code does): whenever a graph object  *)
(* is constructed around existing blocks - the user's input, an extracted  *)
(* sub-graph, a graph read back from a dictionary - the generator OBSERVES *)
(* the names present and moves each kind's counter past them.              *)
(*                                                                         *)
(* Properties: Fresh (a name is issued at most once per family), NoClobber *)
(* (an issued name is not present at issue time), and the inductive        *)
(* invariant Covered that implies both without a bound.                    *)
(***************************************************************************)
EXTENDS Naturals, FiniteSets, TLC

CONSTANTS Kinds, Flavours, MaxIdx, Observing
\* Observing = FALSE is the behaviour of the pinned tree (no observation): kept so that the self-test can show TLC refuting it
Plain == {<<"plain", "p", 0>>}    \* a name outside the generator namespace ("0", "1", ...)

GenNames == Flavours \X Kinds \X (0..MaxIdx)
AllNames == GenNames \cup Plain

VARIABLES ctr, issued, present, last
vars == <<ctr, issued, present, last>>

None == <<"none", "none", 0>>
Max(S) == IF S = {} THEN 0 ELSE CHOOSE x \in S : \A y \in S : y <= x
\* move every counter past the generator-shaped names in N
Observe(c, N) == [k \in Kinds |-> Max({c[k]} \cup {n[3] + 1 : n \in {m \in N \cap GenNames : m[2] = k}})]
Zero == [k \in Kinds |-> 0]
Obs(c, N) == IF Observing THEN Observe(c, N) ELSE c

TypeOK == /\ ctr \in [Kinds -> 0..(MaxIdx + 1)]
          /\ issued \subseteq GenNames
          /\ present \subseteq AllNames
          /\ last \in GenNames \cup {None}

\* any input graph, its names possibly inside the generator's namespace; constructing the graph observes them
Init == /\ present \in SUBSET AllNames
        /\ Cardinality(present) <= 3
        /\ ctr = Obs(Zero, present)
        /\ issued = {}
        /\ last = None

Request(f, k) ==
  /\ ctr[k] <= MaxIdx
  /\ last' = <<f, k, ctr[k]>>
  /\ issued' = issued \cup {last'}
  /\ ctr' = [ctr EXCEPT ![k] = @ + 1]
  /\ UNCHANGED present
\* the issued name is put into the graph (block inserted, region created, variable stored in a block)
Use == /\ last # None /\ present' = present \cup {last} /\ UNCHANGED <<ctr, issued, last>>
\* blocks are removed (wrapped into a sub-graph that shares the generator: nothing happens to ctr)
Remove(n) == /\ n \in present /\ present' = present \ {n} /\ UNCHANGED <<ctr, issued, last>>
\* the graph is written out and read back: a new generator, which observes what it finds; a new family
Reload == /\ ctr' = Obs(Zero, present) /\ issued' = {} /\ last' = None /\ UNCHANGED present

Next == \/ \E f \in Flavours, k \in Kinds : Request(f, k)
        \/ Use
        \/ \E n \in present : Remove(n)
        \/ Reload
Spec == Init /\ [][Next]_vars

\* ---- properties ----
Fresh     == [][\A f \in Flavours, k \in Kinds : Request(f, k) => <<f, k, ctr[k]>> \notin issued]_vars
NoClobber == [][\A f \in Flavours, k \in Kinds : Request(f, k) => <<f, k, ctr[k]>> \notin present]_vars
\* inductive: every issued or present generator-shaped name lies below its kind's counter
Covered   == \A n \in (issued \cup present) \cap GenNames : n[3] < ctr[n[2]]
=============================================================================
