----------------------------- MODULE NamesTrace -----------------------------
(***************************************************************************)
(* C18, E2: trace validation of the name generator inside real             *)
(* restructure behaviours (optionally with a write-out / read-back between *)
(* stages).  One TLC behaviour per recorded behaviour; each step consumes  *)
(* one recorded event:                                                     *)
(*   "name"   - the generator handed out args.name: it must not have been  *)
(*              handed out before for this graph family (Fresh) and must   *)
(*              not name anything present in the graph (NoClobber);        *)
(*   "reload" - the graph was written out and read back: new family;       *)
(*   others   - the recorded delta is applied to the set of names present; *)
(*              a put that changes the kind of an existing name is an      *)
(*              overwrite of an existing block (Overwrites).               *)
(* Names present = block and region names plus the control variables that  *)
(* blocks assign or test.                                                  *)
(***************************************************************************)
EXTENDS Graph, Json, IOUtils

Cases == JsonDeserialize(IOEnv.CASES)

VARIABLES tid, i, issued, kinds, bad, H

VarsOf(b) == (IF "var" \in DOMAIN b THEN {b.var} ELSE {}) \cup (IF "asg" \in DOMAIN b THEN {b.asg[j][1] : j \in 1..Len(b.asg)} ELSE {})
KindsOf(h) == [n \in DOMAIN h |-> h[n].k]
Present(h) == DOMAIN h \cup UNION {VarsOf(h[n]) : n \in DOMAIN h}

\* H is rebuilt from the recorded deltas; `kinds` (name -> kind) is what the overwrite clause compares against
allvars == <<tid, i, issued, kinds, bad, H>>

Ev == Cases[tid].events[i + 1]
ApplyDelta(h, ev) == [n \in (DOMAIN h \ SeqSet(ev.del)) \cup DOMAIN ev.put |-> IF n \in DOMAIN ev.put THEN ev.put[n] ELSE h[n]]

Init == /\ tid \in 1..Len(Cases)
        /\ i = 0
        /\ issued = {Cases[tid].root}      \* the root region's name was handed out when the graph object was built
        /\ H = Cases[tid].init
        /\ kinds = KindsOf(Cases[tid].init)
        /\ bad = {}

Step ==
  /\ i < Len(Cases[tid].events)
  /\ LET ev == Ev
         H2 == ApplyDelta(H, ev)
     IN /\ H' = H2
        /\ kinds' = KindsOf(H2)
        /\ i' = i + 1
        /\ tid' = tid
        /\ IF ev.op = "name"
           THEN /\ issued' = issued \cup {ev.args.name}
                /\ bad' = (IF ev.args.name \in issued THEN {"Fresh"} ELSE {})
                          \cup (IF ev.args.name \in Present(H) THEN {"NoClobber"} ELSE {})
           ELSE IF ev.op = "reload"
           THEN /\ issued' = {}
                /\ bad' = (IF ev.exc # "" THEN {"ReloadRaises"} ELSE {})
           ELSE /\ issued' = issued
                /\ bad' = IF \E n \in DOMAIN ev.put \cap DOMAIN H : ev.put[n].k # H[n].k THEN {"Overwrites"} ELSE {}
Next == Step
Holds == bad = {}
Small == [tid |-> tid, i |-> i, bad |-> bad]
\* every event of every behaviour was consumed (checked by the harness from the number of distinct states)
=============================================================================
