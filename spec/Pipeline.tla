------------------------------ MODULE Pipeline ------------------------------
(***************************************************************************)
(* The WHOLE pipeline   join_returns ; restructure_loop ; restructure_branch *)
(* as the code runs it - including everything that decides which block     *)
(* gets which generated name:                                               *)
(*   - O : level -> Seq(Name), the insertion order of every graph dict.    *)
(*     Every `graph.pop(n)` + `add_block(n)` of the code moves n to the    *)
(*     end of its level; the order effect of each primitive is transcribed *)
(*     below (Ord... operators) next to its state effect (Impl.tla);       *)
(*   - the vendored Tarjan (Algo!Tarjan) run over O, whose emission order   *)
(*     is the order in which loops are rotated and named;                   *)
(*   - SCFG.iter_subregions: pre-order over O, each level read AFTER the   *)
(*     region that owns it has been processed.                              *)
(* Nothing is bound from a log: the result of Run(g) is a function of the   *)
(* input graph alone (the design-level statement of C12), and it must be    *)
(* EQUAL - names, order, tables, counters - to what the real code produces  *)
(* (conformance, checked over the exhaustive domain by TracePipeline).      *)
(***************************************************************************)
EXTENDS Impl, Algo

(************************ dict order bookkeeping ***************************)
TouchSeq(s, n) == Append(Without(s, {n}), n)
Touch(O, l, n) == [O EXCEPT ![l] = TouchSeq(@, n)]
RECURSIVE TouchAll(_, _, _, _)
TouchAll(O, l, ns, j) == IF j > Len(ns) THEN O ELSE TouchAll(Touch(O, l, ns[j]), l, ns, j + 1)
\* _retarget_exiting / update_exiting pop and re-add the exiting block of region r, recursively downwards
RECURSIVE TouchExitChain(_, _, _, _)
TouchExitChain(O, H, r, fuel) ==
  IF fuel = 0 \/ r \notin DOMAIN H \/ H[r].k # "region" \/ H[r].exiting \notin DOMAIN H THEN O
  ELSE TouchExitChain(Touch(O, r, H[r].exiting), H, H[r].exiting, fuel - 1)
Fuel(H) == Cardinality(DOMAIN H) + 1

\* insert_block(new, P, S): add new; every predecessor popped and re-added in the order given
RECURSIVE OrdPreds(_, _, _, _, _)
OrdPreds(O, H, l, P, j) ==
  IF j > Len(P) THEN O ELSE OrdPreds(Touch(TouchExitChain(O, H, P[j], Fuel(H)), l, P[j]), H, l, P, j + 1)
OrdInsertBlock(O, H, l, new, P) == OrdPreds(Touch(O, l, new), H, l, P, 1)

\* insert_block_and_control_blocks: per predecessor its assignment blocks (numbered from the counter), then the predecessor; the head last
AsgName(k) == "synth_asign_block_" \o ToString(k)
RECURSIVE OrdCtlPreds(_, _, _, _, _, _, _)
OrdCtlPreds(O, H, l, P, S, k, j) ==
  IF j > Len(P) THEN O
  ELSE LET p == P[j]
           c == Cardinality(SeqSet(Fwd(H[p])) \cap SeqSet(S))
           O1 == TouchAll(O, l, [i \in 1..c |-> AsgName(k + i - 1)], 1)
       IN OrdCtlPreds(Touch(TouchExitChain(O1, H, p, Fuel(H)), l, p), H, l, P, S, k + c, j + 1)
OrdInsertCtl(O, H, ng, l, new, P, S) == Touch(OrdCtlPreds(O, H, l, P, S, ng["synth_asign"], 1), l, new)

OrdJoinTailsExits(O, H, ng, l, tails, exits) ==
  IF Len(tails) = 1 /\ Len(exits) = 1 THEN O
  ELSE IF Len(tails) = 1 THEN OrdInsertBlock(O, H, l, NewBlock(ng, "synth_exit")[1], tails)
  ELSE IF Len(exits) = 1 THEN OrdInsertBlock(O, H, l, NewBlock(ng, "synth_tail")[1], tails)
  ELSE LET t == NewBlock(ng, "synth_tail")[1]
           x == NewBlock(ng, "synth_exit")[1]
           O1 == OrdInsertBlock(O, H, l, t, tails)
       IN Touch(Touch(O1, l, x), l, t)                         \* second insert_block: add x, then pop / re-add the tail

\* extract_region: entries re-added in sorted order, members removed, the region added last; the sub-graph is built in sorted order
OrdExtract(O, H, l, blocks, rn, rank) ==
  LET entries == SelectSeq(HeadersEntries(H, l, blocks, rank)[2], LAMBDA e : e \in Level(H, l))
      O1 == OrdPreds(O, H, l, entries, 1)
      O2 == [O1 EXCEPT ![l] = Append(Without(@, blocks), rn)]
  IN [x \in DOMAIN O2 \cup {rn} |-> IF x = rn THEN Sorted(blocks, rank) ELSE O2[x]]

(************************ restructure_loop (one level) *********************)
\* loop_restructure_helper's order effect, from its pre-state H0 and the arguments it derives itself
OrdLoopRotate(O, H0, ng0, l, loop0, Hpost, rank) ==
  LET he == HeadersEntries(H0, l, loop0, rank)
      headers == he[1]
      ee == ExitingExits(H0, loop0, rank)
      unified == Len(headers) > 1
      nbh == NewBlock(ng0, "synth_head")
      ctl == InsertCtl(H0, nbh[2], l, nbh[1], he[2], headers, rank)
      H1 == IF unified THEN ctl.H ELSE H0
      ng1 == IF unified THEN ctl.ng ELSE ng0
      O1 == IF unified THEN OrdInsertCtl(O, H0, NewVar(nbh[2], "control")[2], l, nbh[1], he[2], headers) ELSE O
      head == IF unified THEN nbh[1] ELSE headers[1]
      loop1 == IF unified THEN loop0 \cup {head} ELSE loop0
      beblocks == {b \in loop1 : SeqSet(headers) \cap SeqSet(Fwd(H1[b])) # {}}
  IN IF Cardinality(beblocks) = 1 /\ Len(ee[1]) = 1 /\ beblocks = {ee[1][1]} THEN Touch(O1, l, ee[1][1])
     ELSE
     LET names == SelectSeq(Sorted(loop1, rank), LAMBDA n : n \in SeqSet(ee[1]) \/ n \in beblocks)
         \* the assignment blocks created for `name`, in creation order = position order of the arcs they replace
         NewAsg(name) == SelectSeq(Fwd(Hpost[name]), LAMBDA t : t \notin DOMAIN H1 /\ t \in DOMAIN Hpost /\ Hpost[t].k = "assign")
         RECURSIVE PerName(_, _)
         PerName(Oc, j) == IF j > Len(names) THEN Oc ELSE PerName(Touch(TouchAll(Oc, l, NewAsg(names[j]), 1), l, names[j]), j + 1)
         O2 == PerName(O1, 1)
         latch == NewBlock(ng1, "synth_exit_latch")[1]
         O3 == Touch(O2, l, latch)
     IN IF Len(ee[2]) > 1 THEN Touch(O3, l, NewBlock(NewBlock(ng1, "synth_exit_latch")[2], "synth_exit")[1]) ELSE O3

\* G[v] of compute_scc: forward targets that are blocks of this graph, list order
SccInput(H, l) == [u \in Level(H, l) |-> SelectSeq(Fwd(H[u]), LAMBDA t : t \in Level(H, l))]
LoopsInOrder(H, O, l) ==
  LET G == SccInput(H, l)
  IN SelectSeq(Tarjan(G, O[l]), LAMBDA c : Cardinality(c) > 1 \/ \E u \in c : u \in SeqSet(G[u]))

RECURSIVE LoopFoldO(_, _, _, _, _)
\* st = [H, O, ng, fail]
LoopFoldO(st, l, loops, j, rank) ==
  IF j > Len(loops) \/ st.fail THEN st
  ELSE LET r == LoopRotate(st.H, st.ng, l, loops[j], rank) IN
       IF r.fail \/ HasFail(r.H) THEN [st EXCEPT !.H = r.H, !.ng = r.ng, !.fail = TRUE]
       ELSE LET O1 == OrdLoopRotate(st.O, st.H, st.ng, l, loops[j], r.H, rank)
                x == Extract(r.H, r.ng, l, r.loop, "loop", rank)
                rn == NewRegion(r.ng, "loop")[1]
            IN IF ~x.ok THEN [st EXCEPT !.H = x.H, !.ng = x.ng, !.fail = TRUE]
               ELSE LoopFoldO([H |-> x.H, O |-> OrdExtract(O1, r.H, l, r.loop, rn, rank), ng |-> x.ng, fail |-> FALSE], l, loops, j + 1, rank)
LoopLevel(st, l, rank) == LoopFoldO(st, l, LoopsInOrder(st.H, st.O, l), 1, rank)

(************************ restructure_branch (one level) *******************)
BranchLevel(st, l, rank) ==
  LET H0 == st.H
      be == BranchBeginEnd(H0, l) IN
  IF be = <<>> THEN st
  ELSE
  LET begin == be[1]
      hb0 == HeadBlocks(H0, l, begin)
      br0 == BranchRegions(H0, l, begin, be[2])
      tb0 == TailBlocks(H0, l, begin, hb0, br0)
      he0 == HeadersEntries(H0, l, tb0, rank)
      uni == Len(he0[1]) > 1
      nbh == NewBlock(st.ng, "synth_head")
      ctl == InsertCtl(H0, nbh[2], l, nbh[1], he0[2], he0[1], rank)
      H1 == IF uni THEN ctl.H ELSE H0
      ng1 == IF uni THEN ctl.ng ELSE st.ng
      O1 == IF uni THEN OrdInsertCtl(st.O, H0, NewVar(nbh[2], "control")[2], l, nbh[1], he0[2], he0[1]) ELSE st.O
      end == IF uni THEN nbh[1] ELSE be[2]
      hb1 == HeadBlocks(H1, l, begin)
      br1 == BranchRegions(H1, l, begin, end)
      tb1 == TailBlocks(H1, l, begin, hb1, br1)
      RECURSIVE Close(_, _)
      Close(s, j) ==
        IF j > Len(br1) \/ s.fail THEN s
        ELSE LET th == HeadersEntries(s.H, l, tb1, rank)[1] IN
             IF br1[j] = <<>> THEN
                LET nb == NewBlock(s.ng, "synth_fill")
                IN Close([H |-> InsertBlock(s.H, l, nb[1], <<begin>>, th, "fill"), O |-> OrdInsertBlock(s.O, s.H, l, nb[1], <<begin>>),
                          ng |-> nb[2], fail |-> FALSE], j + 1)
             ELSE IF br1[j][2] = {} THEN Close(s, j + 1)
             ELSE LET tails == ExitingExits(s.H, br1[j][2], rank)[1]
                      r == JoinTailsExits(s.H, s.ng, l, tails, th)
                  IN Close([H |-> r.H, O |-> IF r.fail THEN s.O ELSE OrdJoinTailsExits(s.O, s.H, s.ng, l, tails, th), ng |-> r.ng, fail |-> r.fail], j + 1)
      s2 == Close([H |-> H1, O |-> O1, ng |-> ng1, fail |-> FALSE], 1)
      hb2 == HeadBlocks(s2.H, l, begin)
      br2 == BranchRegions(s2.H, l, begin, end)
      tb2 == TailBlocks(s2.H, l, begin, hb2, br2)
      \* one extract_region call with its order effect;  s = [H, O, ng, fail]
      Ext(s, blocks, kind) ==
        IF s.fail THEN s
        ELSE LET x == Extract(s.H, s.ng, l, blocks, kind, rank)
                 rn == NewRegion(s.ng, kind)[1]
             IN IF ~x.ok THEN [s EXCEPT !.fail = TRUE]
                ELSE [H |-> x.H, O |-> OrdExtract(s.O, s.H, l, blocks, rn, rank), ng |-> x.ng, fail |-> FALSE]
      RECURSIVE Arms(_, _)
      Arms(s, j) ==
        IF j > Len(br2) \/ s.fail THEN s
        ELSE IF br2[j] = <<>> \/ br2[j][2] = {} THEN Arms(s, j + 1)
        ELSE Arms(Ext(s, br2[j][2], "branch"), j + 1)
      s3 == IF s2.fail THEN s2 ELSE Arms(Ext(s2, hb2, "head"), 1)
      s4 == Ext(s3, tb2, "tail")
  IN [s4 EXCEPT !.fail = @ \/ HasFail(s4.H)]

(************************ the two stage drivers ****************************)
\* SCFG.restructure_loop / restructure_branch: the level itself, then iter_subregions (pre-order over the dict order
\* of each level as it is AFTER that level has been processed)
RECURSIVE StageO(_, _, _, _, _), StageKids(_, _, _, _, _, _)
StageO(st, l, which, rank, fuel) ==
  IF fuel = 0 THEN [st EXCEPT !.fail = TRUE]
  ELSE LET s1 == IF which = "loop" THEN LoopLevel(st, l, rank) ELSE BranchLevel(st, l, rank)
       IN IF s1.fail THEN s1 ELSE StageKids(s1, SelectSeq(s1.O[l], LAMBDA n : s1.H[n].k = "region"), 1, which, rank, fuel - 1)
StageKids(st, regs, j, which, rank, fuel) ==
  IF j > Len(regs) \/ st.fail THEN st ELSE StageKids(StageO(st, regs[j], which, rank, fuel), regs, j + 1, which, rank, fuel)

\* H0 : the flat input at level `root`, order : its dict order
RunClosed(H0, order, root, ng0) ==
  LET rets == SelectSeq(order, LAMBDA n : Fwd(H0[n]) = <<>>)
      r == JoinReturns(H0, ng0, root, order)
      O0 == (root :> order)
  IN [H |-> r.H, ng |-> r.ng, fail |-> FALSE,
      O |-> IF Len(rets) > 1 THEN OrdInsertBlock(O0, H0, root, NewBlock(ng0, "synth_return")[1], rets) ELSE O0]
LoopsFrom(a, root, rank) == StageO(a, root, "loop", rank, 200)
BranchesFrom(b, root, rank) == IF b.fail THEN b ELSE StageO(b, root, "branch", rank, 200)
RunLoops(H0, order, root, ng0, rank) == LoopsFrom(RunClosed(H0, order, root, ng0), root, rank)
RunBranches(H0, order, root, ng0, rank) == BranchesFrom(RunLoops(H0, order, root, ng0, rank), root, rank)
=============================================================================
