------------------------------- MODULE Props -------------------------------
(***************************************************************************)
(* Contract layer: state predicates on a hierarchy, literal formalisations *)
(* of the property statements C03 (Structured), C04 (WellFormed), C05      *)
(* (Conserved), C06-static (TablesAgree).  Every predicate is split into   *)
(* named clauses; `Failed...` operators return the set of names of the     *)
(* clauses that are false so a verdict always names what broke.            *)
(***************************************************************************)
EXTENDS Graph

(***************************** C04 WellFormed ******************************)
\* s = [H, root, dup]
\* the projection lists in `dup` every name met twice and every key that differs from its block's own name
WfNamesUnique(s)  == s.dup = <<>>
WfUpValid(s)      == \A n \in DOMAIN s.H : s.H[n].up = s.root \/ s.H[n].up \in Regions(s.H)
WfHeaderInside(s) == \A r \in Regions(s.H) : s.H[r].header \in Level(s.H, r) /\ s.H[r].exiting \in Level(s.H, r)
WfTargetsExist(s) ==
  \A n \in DOMAIN s.H :
     LET vis == UNION {Level(s.H, l) : l \in Enclosing(s.H, s.root, s.H[n].up)}
     IN SeqSet(s.H[n].jt) \cup SeqSet(s.H[n].be) \subseteq vis
WfBackInJt(s)     == \A n \in DOMAIN s.H : SeqSet(s.H[n].be) \subseteq SeqSet(s.H[n].jt)
\* control leaves a region only from its exiting block
WfLeaveFromExiting(s) ==
  \A r \in Regions(s.H) : \A n \in Level(s.H, r) :
     (\E t \in SeqSet(s.H[n].jt) : t \notin Level(s.H, r)) => n = s.H[r].exiting
\* control enters a region only at its header: nobody outside names an inner block
WfEnterAtHeader(s) ==
  \A r \in Regions(s.H) : LET inner == Inside(s.H, r) IN
     \A n \in DOMAIN s.H \ inner : SeqSet(s.H[n].jt) \cap inner = {}
\* a region's outgoing targets are those of its innermost exiting block
WfCopiesAgree(s)  ==
  \A r \in Regions(s.H) :
     LET x == InnerExiting(s.H, r) IN x # "?" /\ Fwd(s.H[r]) = Fwd(s.H[x])
\* ... and of every region on the way down (recursively)
WfChainAgree(s)   ==
  \A r \in Regions(s.H) : s.H[r].exiting \in DOMAIN s.H => Fwd(s.H[r]) = Fwd(s.H[s.H[r].exiting])
WfParentRecorded(s) == \A r \in Regions(s.H) : s.H[r].pp = s.H[r].up /\ s.H[r].sr = r

FailedWF(s) ==
  {c \in {"NamesUnique", "UpValid", "HeaderInside", "TargetsExist", "BackInJt", "LeaveFromExiting",
          "EnterAtHeader", "CopiesAgree", "ChainAgree", "ParentRecorded"} :
     ~ CASE c = "NamesUnique" -> WfNamesUnique(s)
         [] c = "UpValid" -> WfUpValid(s)
         [] c = "HeaderInside" -> WfUpValid(s) => WfHeaderInside(s)
         [] c = "TargetsExist" -> WfUpValid(s) => WfTargetsExist(s)
         [] c = "BackInJt" -> WfBackInJt(s)
         [] c = "LeaveFromExiting" -> WfLeaveFromExiting(s)
         [] c = "EnterAtHeader" -> WfUpValid(s) => WfEnterAtHeader(s)
         [] c = "CopiesAgree" -> WfCopiesAgree(s)
         [] c = "ChainAgree" -> WfChainAgree(s)
         [] c = "ParentRecorded" -> WfParentRecorded(s)}
WellFormed(s) == FailedWF(s) = {}
\* bp : region -> [name, kind, parent, header, exiting, jt] - what the region's own sub-graph records as "the region I represent"
\* (SCFG.region, the back pointer): it must describe the region block that actually holds that sub-graph
WfBackPointers(bp, s) ==
  \A r \in DOMAIN bp \cap Regions(s.H) :
     LET b == s.H[r] p == bp[r] IN
     /\ p.name = r /\ p.kind = b.rk /\ p.header = b.header /\ p.exiting = b.exiting /\ p.jt = b.jt
     /\ p.parent = b.up

(***************************** C06 TablesAgree *****************************)
TablesAgree(H) ==
  \A n \in DOMAIN H : H[n].k \in BranchKinds =>
     {H[n].tab[j][2] : j \in 1..Len(H[n].tab)} = SeqSet(H[n].jt)
TableKeysDistinct(H) ==
  \A n \in DOMAIN H : H[n].k \in BranchKinds =>
     \A i, j \in 1..Len(H[n].tab) : i # j => H[n].tab[i][1] # H[n].tab[j][1]
FailedTables(H) == {c \in {"TablesAgree", "TableKeysDistinct"} :
                      ~ CASE c = "TablesAgree" -> TablesAgree(H) [] c = "TableKeysDistinct" -> TableKeysDistinct(H)}

(***************************** C05 Conserved *******************************)
\* c = [orig, origk, origpay];  H a later hierarchy; closed = TRUE once join_returns ran
TargetOK(H, old, new) ==
  \/ new = old
  \/ new \in DOMAIN H /\ H[new].k \in SynthKinds
  \/ new \in DOMAIN H /\ H[new].k = "region"
       /\ LET h == InnerHeader(H, new) IN h = old \/ (h \in DOMAIN H /\ H[h].k \in SynthKinds)
CV_Present(c, H)  == \A n \in DOMAIN c.orig : n \in DOMAIN H /\ H[n].k = c.origk[n] /\ H[n].k # "region"
Pay(b) == IF "pay" \in DOMAIN b THEN b.pay ELSE <<>>
CV_Payload(c, H)  == \A n \in DOMAIN c.orig : n \in DOMAIN H => Pay(H[n]) = c.origpay[n]
CV_Arity(c, H, closed) ==
  \A n \in DOMAIN c.orig : n \in DOMAIN H =>
     \/ Len(H[n].jt) = Len(c.orig[n])
     \/ closed /\ Len(c.orig[n]) = 0 /\ Len(H[n].jt) = 1 /\ H[n].jt[1] \in DOMAIN H
           /\ (H[H[n].jt[1]].k \in SynthKinds \/ H[H[n].jt[1]].k = "region")
CV_Targets(c, H)  ==
  \A n \in DOMAIN c.orig : (n \in DOMAIN H /\ Len(H[n].jt) = Len(c.orig[n])) =>
     \A i \in 1..Len(c.orig[n]) : TargetOK(H, c.orig[n][i], H[n].jt[i])
CV_AddedSynthetic(c, H) == \A n \in DOMAIN H \ DOMAIN c.orig : H[n].k \in SynthKinds \cup {"region"}
FailedCV(c, s, closed) ==
  {x \in {"Present", "Payload", "Arity", "Targets", "AddedSynthetic", "Once"} :
     ~ CASE x = "Present" -> CV_Present(c, s.H)
         [] x = "Payload" -> CV_Payload(c, s.H)
         [] x = "Arity" -> CV_Arity(c, s.H, closed)
         [] x = "Targets" -> CV_Targets(c, s.H)
         [] x = "AddedSynthetic" -> CV_AddedSynthetic(c, s.H)
         [] x = "Once" -> s.dup = <<>>}

(***************************** C03 Structured ******************************)
\* per level: forward edges (declared back edges ignored) are acyclic
ST_LevelsAcyclic(s) ==
  \A l \in {s.root} \cup Regions(s.H) : Acyclic(AdjLevel(s.H, l))
\* blocks inside loop region r that are not inside a nested loop region
RECURSIVE LoopBodyF(_, _, _)
LoopBodyF(H, r, fuel) ==
  IF fuel = 0 THEN {}
  ELSE LET kids == Level(H, r) IN
       (kids \ Regions(H)) \cup UNION {LoopBodyF(H, c, fuel - 1) : c \in {x \in kids \cap Regions(H) : H[x].rk # "loop"}}
LoopBody(H, r) == LoopBodyF(H, r, Cardinality(DOMAIN H) + 1)
LoopRegions(H) == {r \in Regions(H) : H[r].rk = "loop"}
\* exactly one back edge per loop region: on its innermost exiting block, to its innermost header
ST_LoopBackEdge(s) ==
  \A r \in LoopRegions(s.H) :
     LET body == LoopBody(s.H, r)
         withbe == {b \in body : s.H[b].be # <<>>}
         x == InnerExiting(s.H, r)
     IN /\ withbe = {x}
        /\ Len(s.H[x].be) = 1
        /\ InnerHeader(s.H, s.H[x].be[1]) = InnerHeader(s.H, r)
        /\ InnerHeader(s.H, r) # "?"
        /\ s.H[x].be[1] \in HeaderChain(s.H, r)       \* ... and names that header (or the region it is the header of)
        /\ s.H[x].be[1] \in SeqSet(s.H[x].jt)         \* the back edge IS an edge of the latch: the loop loops
        /\ s.H[s.H[x].be[1]].up \in Enclosing(s.H, s.root, s.H[x].up)   \* ... to something visible from where the latch stands
\* no back edge outside loop regions, and none on a region block itself
ST_NoStrayBackEdge(s) ==
  /\ \A r \in Regions(s.H) : s.H[r].be = <<>>
  /\ \A b \in DOMAIN s.H \ Regions(s.H) : s.H[b].be # <<>> => \E r \in LoopRegions(s.H) : b \in LoopBody(s.H, r)
\* every cycle of the input lies inside a loop region
ST_CyclesInLoops(c, s) ==
  \A S \in Cycles(AdjOrig(c.orig)) : \E r \in LoopRegions(s.H) : S \subseteq Inside(s.H, r)
\* any block with more than one forward successor is the exiting block of a head region
ST_BranchAtHead(s) ==
  \A n \in DOMAIN s.H : Len(Fwd(s.H[n])) > 1 =>
     \E h \in Regions(s.H) : s.H[h].rk = "head" /\ n \in ExitChain(s.H, h)
\* a head region continues to pairwise distinct branch regions, each with one continuation: one common tail region
ST_HeadBranchTail(s) ==
  \A h \in Regions(s.H) : (s.H[h].rk = "head" /\ Len(Fwd(s.H[h])) > 1) =>
     LET arms == Fwd(s.H[h]) IN
     /\ NoDupSeq(arms)
     /\ \A j \in 1..Len(arms) : arms[j] \in Regions(s.H) /\ s.H[arms[j]].rk = "branch" /\ Len(Fwd(s.H[arms[j]])) = 1
                                /\ s.H[arms[j]].up = s.H[h].up
     /\ \A i, j \in 1..Len(arms) : (arms[i] \in DOMAIN s.H /\ arms[j] \in DOMAIN s.H /\ Len(Fwd(s.H[arms[i]])) = 1 /\ Len(Fwd(s.H[arms[j]])) = 1)
                                     => Fwd(s.H[arms[i]])[1] = Fwd(s.H[arms[j]])[1]
     /\ \A j \in 1..Len(arms) : (arms[j] \in DOMAIN s.H /\ Len(Fwd(s.H[arms[j]])) = 1) =>
           LET t == Fwd(s.H[arms[j]])[1] IN t \in Regions(s.H) /\ s.H[t].rk = "tail"
FailedST(c, s) ==
  {x \in {"LevelsAcyclic", "LoopBackEdge", "NoStrayBackEdge", "CyclesInLoops", "BranchAtHead", "HeadBranchTail"} :
     ~ CASE x = "LevelsAcyclic" -> ST_LevelsAcyclic(s)
         [] x = "LoopBackEdge" -> ST_LoopBackEdge(s)
         [] x = "NoStrayBackEdge" -> ST_NoStrayBackEdge(s)
         [] x = "CyclesInLoops" -> ST_CyclesInLoops(c, s)
         [] x = "BranchAtHead" -> ST_BranchAtHead(s)
         [] x = "HeadBranchTail" -> ST_HeadBranchTail(s)}

(***************************** C16 iteration / view ************************)
IsPerm(seq, S) == Len(seq) = Cardinality(S) /\ SeqSet(seq) = S
HeadsOf(H, l) == LET Lv == Level(H, l) IN {h \in Lv : \A u \in Lv : h \notin SeqSet(Fwd(H[u]))}
\* iterating a graph yields every block and region of the whole hierarchy exactly once, head first
IT_Complete(seq, s)  == SeqSet(seq) = DOMAIN s.H
IT_Once(seq, s)      == NoDupSeq(seq)
IT_HeadFirst(seq, s) == Len(seq) > 0 /\ HeadsOf(s.H, s.root) = {seq[1]}
\* the region-concealing view of level l: exactly that level's own items, each once, head first,
\* every other item after at least one of its predecessors (a region continues at its declared targets)
VW_Complete(seq, l, s)  == SeqSet(seq) = Level(s.H, l)
VW_Once(seq, l, s)      == NoDupSeq(seq)
VW_HeadFirst(seq, l, s) == Len(seq) > 0 /\ HeadsOf(s.H, l) = {seq[1]}
VW_AfterPred(seq, l, s) == \A j \in 2..Len(seq) : seq[j] \in DOMAIN s.H =>
                              \E i \in 1..(j-1) : seq[i] \in DOMAIN s.H /\ seq[j] \in SeqSet(Fwd(s.H[seq[i]]))
\* the view started at an explicit head h of level l: exactly what is reachable from h inside the level along the declared forward
\* targets (a region continued at its own outgoing targets), each once, h first, every other item after one of its predecessors
RECURSIVE GrowIn(_, _, _, _)
GrowIn(H, l, seen, fr) ==
  IF fr = {} THEN seen
  ELSE LET nw == ((UNION {SeqSet(Fwd(H[u])) : u \in fr}) \cap Level(H, l)) \ seen IN GrowIn(H, l, seen \cup nw, nw)
VW_From(seq, h, l, s) ==
  /\ SeqSet(seq) = GrowIn(s.H, l, {h}, {h})
  /\ NoDupSeq(seq)
  /\ Len(seq) > 0 /\ seq[1] = h
  /\ VW_AfterPred(seq, l, s)
\* hk = [iter, iterexc, views : level -> seq, viewexc : level -> string, (from : level -> head -> seq)]
FailedViews(hk, s) ==
  (IF hk.iterexc # "" THEN {"IterRaises"} ELSE
     {c \in {"IterComplete", "IterOnce", "IterHeadFirst"} :
        ~ CASE c = "IterComplete" -> IT_Complete(hk.iter, s)
            [] c = "IterOnce" -> IT_Once(hk.iter, s)
            [] c = "IterHeadFirst" -> IT_HeadFirst(hk.iter, s)})
  \cup (IF DOMAIN hk.views # {s.root} \cup Regions(s.H) THEN {"MACHINERY-views-not-recorded-for-every-level"} ELSE {})
  \cup UNION {
        IF hk.viewexc[l] # "" THEN {"ViewRaises"} ELSE
        {c \in {"ViewComplete", "ViewOnce", "ViewHeadFirst", "ViewAfterPred"} :
           ~ CASE c = "ViewComplete" -> VW_Complete(hk.views[l], l, s)
               [] c = "ViewOnce" -> VW_Once(hk.views[l], l, s)
               [] c = "ViewHeadFirst" -> VW_HeadFirst(hk.views[l], l, s)
               [] c = "ViewAfterPred" -> VW_AfterPred(hk.views[l], l, s)}
        : l \in DOMAIN hk.views}
  \cup (IF "held" \notin DOMAIN hk THEN {}
        ELSE UNION {IF l \in {s.root} \cup Regions(s.H)
                       /\ ~(VW_Complete(hk.held[l], l, s) /\ VW_Once(hk.held[l], l, s) /\ VW_HeadFirst(hk.held[l], l, s) /\ VW_AfterPred(hk.held[l], l, s))
                    THEN {"ViewHeldAcrossStage"} ELSE {} : l \in DOMAIN hk.held})
  \cup (IF "from" \notin DOMAIN hk THEN {}
        ELSE UNION {UNION {IF h \in Level(s.H, l) /\ ~VW_From(hk.from[l][h], h, l, s) THEN {"ViewFromHead"} ELSE {} : h \in DOMAIN hk.from[l]} : l \in DOMAIN hk.from})

(***************************** C17 rendering *******************************)
\* d = [exc, parseexc, nodes : name -> [cluster, lname, asg, var, tab, offs, expoffs], clusters : name -> [parent, lname],
\*      solid : Seq(<<src, dst>>), dashed : Seq(<<src, dst>>)]   (the drawing, parsed from the generated DOT source)
ClusterOf(s, n) == IF s.H[n].up = s.root THEN "" ELSE s.H[n].up
PairSet(q) == {<<q[j][1], q[j][2]>> : j \in 1..Len(q)}
Blocks(s) == DOMAIN s.H \ Regions(s.H)
DR_Nodes(d, s)    == DOMAIN d.nodes = Blocks(s)
DR_Clusters(d, s) == /\ DOMAIN d.clusters = Regions(s.H)
                     /\ \A r \in DOMAIN d.clusters \cap Regions(s.H) : d.clusters[r].parent = ClusterOf(s, r)
DR_Placement(d, s) == \A n \in DOMAIN d.nodes \cap Blocks(s) : d.nodes[n].cluster = ClusterOf(s, n)
\* an edge to a region is drawn to the innermost header block of that region
SolidExpected(s) == UNION {{<<b, InnerHeader(s.H, Fwd(s.H[b])[j])>> : j \in 1..Len(Fwd(s.H[b]))} : b \in Blocks(s)}
DashedExpected(s) == UNION {{<<b, InnerHeader(s.H, s.H[b].be[j])>> : j \in 1..Len(s.H[b].be)} : b \in Blocks(s)}
SumLen(s, f(_)) == LET RECURSIVE Sum(_) Sum(S) == IF S = {} THEN 0 ELSE LET x == CHOOSE y \in S : TRUE IN Len(f(s.H[x])) + Sum(S \ {x}) IN Sum(Blocks(s))
BeOf(b) == b.be
DR_SolidEdges(d, s)  == PairSet(d.solid) = SolidExpected(s) /\ Len(d.solid) = SumLen(s, Fwd)
DR_DashedEdges(d, s) == PairSet(d.dashed) = DashedExpected(s) /\ Len(d.dashed) = SumLen(s, BeOf)
DR_Labels(d, s) ==
  /\ \A n \in DOMAIN d.nodes \cap Blocks(s) :
        /\ d.nodes[n].lname = n
        /\ s.H[n].k = "assign" => PairSet(d.nodes[n].asg) = PairSet(s.H[n].asg)
        /\ s.H[n].k \in BranchKinds => d.nodes[n].var = s.H[n].var /\ PairSet(d.nodes[n].tab) = PairSet(s.H[n].tab)
        /\ d.nodes[n].offs = d.nodes[n].expoffs          \* payload summary (instruction list of a bytecode block)
  /\ \A r \in DOMAIN d.clusters : d.clusters[r].lname = r
FailedDrawing(d, s) ==
  IF d.exc # "" THEN {"RenderRaises"}
  ELSE IF d.parseexc # "" THEN {"MACHINERY-dot-parser"}
  ELSE {c \in {"Nodes", "Clusters", "Placement", "SolidEdges", "DashedEdges", "Labels"} :
          ~ CASE c = "Nodes" -> DR_Nodes(d, s) [] c = "Clusters" -> DR_Clusters(d, s) [] c = "Placement" -> DR_Placement(d, s)
              [] c = "SolidEdges" -> DR_SolidEdges(d, s) [] c = "DashedEdges" -> DR_DashedEdges(d, s) [] c = "Labels" -> DR_Labels(d, s)}
=============================================================================
