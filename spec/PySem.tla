------------------------------- MODULE PySem -------------------------------
(***************************************************************************)
(* Reference semantics of the supported source subset (C07, C08, C11) over *)
(* abstract values with an external oracle.                                *)
(*                                                                         *)
(* Every data value is opaque.  The OBSERVABLE events are the value-       *)
(* creating ones: calls of the external functions t(k), ev(k, ...), it(k)  *)
(* and every explicit operator applied to an opaque value (comparison,     *)
(* arithmetic, unary minus, in-place add, attribute, item), each with the  *)
(* identities of its operands.  The oracle chooses each outcome: a truthy  *)
(* value "T", a falsy value "F", or raising "R" (for it(k): the length     *)
(* "0".."2").  Testing the truthiness of a value is NOT an event (see      *)
(* DESIGN 8/C07).  The final observation is the identity (or constant)     *)
(* returned, or the exception kind, where reading an unassigned local is   *)
(* the exception "Unbound".                                                *)
(*                                                                         *)
(* Run(p, ans) is a functional big-step evaluator that consumes a prefix   *)
(* of oracle answers and reports status "more" when it runs out.           *)
(*   MODE = "explore": TLC enumerates every oracle script (state = answer  *)
(*          prefix) of every program up to depth MAXD; complete behaviours *)
(*          are the states whose status is not "more" (E3: scripts to run  *)
(*          against the real code).                                        *)
(*   MODE = "trace":   every recorded execution (script, observed events,  *)
(*          observed outcome) of the original function, of the block-wise  *)
(*          interpretation of the built graph (C08) and of the regenerated *)
(*          function (C07) is compared with Run (E2).                      *)
(***************************************************************************)
EXTENDS Naturals, Integers, Sequences, FiniteSets, TLC, Json, IOUtils

Mode  == IOEnv.MODE
Progs == JsonDeserialize(IOEnv.PROGS)      \* sequence of [params, body, N]
MaxD  == atoi(IOEnv.MAXD)
Cases == IF Mode \in {"trace", "explain"} THEN JsonDeserialize(IOEnv.CASES) ELSE <<>>

\* ---- machine state threaded through evaluation -------------------------------------------------
\* [st: store, i: index of next answer, ev: events, status: "ok"|"more"|"exc"|"ret"|"brk"|"cnt", val, need]
Val(id, tr) == [tag |-> "v", id |-> id, tr |-> tr]
Const(c) == [tag |-> "c", c |-> c]
CNone == Const("None")
Truthy(v) == IF v.tag = "v" THEN v.tr ELSE IF v.tag = "l" THEN Len(v.items) > 0 ELSE v.c \notin {"None", "False", "0"}
\* identity of a value as seen in events: creation index for opaque values, the constant's text for constants, "list" for lists
Vid(v) == IF v.tag = "v" THEN ToString(v.id) ELSE IF v.tag = "c" THEN v.c ELSE "list"
Ok(m) == m.status = "ok"
Exc(m, what) == [m EXCEPT !.status = "exc", !.val = Const(what)]
\* an operator applied to constants only (None / booleans / numbers) is computed by Python itself: outside this model.
\* Such a run is neither replayed nor compared (status "unmodelled").
Unmodelled(m) == [m EXCEPT !.status = "unmodelled"]

\* oracle event: creates a value; consumes one answer
Oracle(m, a, what) ==
  IF m.i > Len(a) THEN [m EXCEPT !.status = "more", !.need = "val"]
  ELSE LET x == a[m.i] IN
       IF x = "R" THEN [m EXCEPT !.status = "exc", !.i = @ + 1, !.ev = Append(@, <<what, "R">>), !.val = Const("OracleError")]
       ELSE IF x \notin {"T", "F"} THEN Exc(m, "BadScript")
       ELSE [m EXCEPT !.i = @ + 1, !.ev = Append(@, <<what, x>>), !.val = Val(Len(m.ev) + 1, x = "T")]
\* it(k): the answer is the length; the items are values created by further answers
RECURSIVE Items(_, _, _, _)
Items(m, a, n, acc) ==
  IF n = 0 THEN [m EXCEPT !.val = [tag |-> "l", items |-> acc]]
  ELSE LET m1 == Oracle(m, a, <<"elem", ToString(Len(acc))>>) IN
       IF ~Ok(m1) THEN m1 ELSE Items(m1, a, n - 1, Append(acc, m1.val))
OracleIt(m, a, k) ==
  IF m.i > Len(a) THEN [m EXCEPT !.status = "more", !.need = "len"]
  ELSE LET x == a[m.i] m1 == [m EXCEPT !.i = @ + 1, !.ev = Append(@, <<<<"it", ToString(k)>>, x>>)] IN
       IF x = "R" THEN [m1 EXCEPT !.status = "exc", !.val = Const("OracleError")]
       ELSE IF x \notin {"0", "1", "2"} THEN Exc(m, "BadScript")
       ELSE Items(m1, a, IF x = "0" THEN 0 ELSE IF x = "1" THEN 1 ELSE 2, <<>>)

\* operators on a list value are not part of the generated subset: they raise (TypeError in CPython)
IsOpaque(v) == v.tag = "v"

RECURSIVE Eval(_, _, _, _), EvalBool(_, _, _, _, _, _), EvalCmp(_, _, _, _, _, _), EvalArgs(_, _, _, _, _, _)
Eval(N, m, a, e) ==
  LET n == N[e] IN
  IF ~Ok(m) THEN m
  ELSE IF n.k = "t" THEN Oracle(m, a, <<"t", ToString(n.arg)>>)
  ELSE IF n.k = "name" THEN
       IF n.id \in DOMAIN m.st THEN [m EXCEPT !.val = m.st[n.id]] ELSE Exc(m, "Unbound")
  ELSE IF n.k = "const" THEN [m EXCEPT !.val = Const(n.c)]
  ELSE IF n.k = "not" THEN
       LET m1 == Eval(N, m, a, n.e) IN
       IF ~Ok(m1) THEN m1 ELSE [m1 EXCEPT !.val = Const(IF Truthy(m1.val) THEN "False" ELSE "True")]
  ELSE IF n.k = "boolop" THEN EvalBool(N, m, a, n.op, n.vs, 1)
  ELSE IF n.k = "it" THEN OracleIt(m, a, n.arg)
  ELSE IF n.k = "cmp" THEN LET m1 == Eval(N, m, a, n.l) IN IF ~Ok(m1) THEN m1 ELSE EvalCmp(N, m1, a, m1.val, n.rs, 1)
  ELSE IF n.k = "binop" THEN
       LET m1 == Eval(N, m, a, n.l) IN
       IF ~Ok(m1) THEN m1 ELSE
       LET m2 == Eval(N, m1, a, n.r) IN
       IF ~Ok(m2) THEN m2
       ELSE IF ~IsOpaque(m1.val) /\ ~IsOpaque(m2.val) THEN Unmodelled(m2)
       ELSE Oracle(m2, a, <<"op", Vid(m1.val), Vid(m2.val)>>)
  ELSE IF n.k = "neg" THEN
       LET m1 == Eval(N, m, a, n.e) IN
       IF ~Ok(m1) THEN m1 ELSE IF ~IsOpaque(m1.val) THEN Unmodelled(m1) ELSE Oracle(m1, a, <<"neg", Vid(m1.val)>>)
  ELSE IF n.k = "attr" THEN
       LET m1 == Eval(N, m, a, n.e) IN
       IF ~Ok(m1) THEN m1 ELSE IF ~IsOpaque(m1.val) THEN Exc(m1, "AttributeError") ELSE Oracle(m1, a, <<"attr", Vid(m1.val)>>)
  ELSE IF n.k = "subscr" THEN
       LET m1 == Eval(N, m, a, n.e) IN
       IF ~Ok(m1) THEN m1 ELSE
       LET m2 == Eval(N, m1, a, n.i) IN
       IF ~Ok(m2) THEN m2 ELSE IF ~IsOpaque(m1.val) THEN Exc(m2, "TypeError") ELSE Oracle(m2, a, <<"item", Vid(m1.val), Vid(m2.val)>>)
  ELSE IF n.k = "ev" THEN EvalArgs(N, m, a, n, 1, <<>>)
  ELSE Exc(m, "BadNode")

\* arguments left to right, then the call itself
EvalArgs(N, m, a, n, j, ids) ==
  IF j > Len(n.args) THEN Oracle(m, a, <<"ev", ToString(n.arg)>> \o ids)
  ELSE LET m1 == Eval(N, m, a, n.args[j]) IN
       IF ~Ok(m1) THEN m1 ELSE EvalArgs(N, m1, a, n, j + 1, Append(ids, Vid(m1.val)))

EvalBool(N, m, a, op, vs, j) ==
  LET m1 == Eval(N, m, a, vs[j]) IN
  IF ~Ok(m1) \/ j = Len(vs) THEN m1
  ELSE IF (op = "and") = Truthy(m1.val) THEN EvalBool(N, m1, a, op, vs, j + 1) ELSE m1

\* chained comparison: left value lv already evaluated; rs = remaining comparators
EvalCmp(N, m, a, lv, rs, j) ==
  LET m1 == Eval(N, m, a, rs[j]) IN
  IF ~Ok(m1) THEN m1
  ELSE IF ~IsOpaque(lv) /\ ~IsOpaque(m1.val) THEN Unmodelled(m1)
  ELSE LET m2 == Oracle(m1, a, <<"cmp", Vid(lv), Vid(m1.val)>>) IN
       IF ~Ok(m2) \/ j = Len(rs) \/ ~Truthy(m2.val) THEN m2 ELSE EvalCmp(N, m2, a, m1.val, rs, j + 1)

Store(m, t, v) == [m EXCEPT !.st = [x \in DOMAIN m.st \cup {t} |-> IF x = t THEN v ELSE m.st[x]]]
RECURSIVE Exec(_, _, _, _), ExecSeq(_, _, _, _, _), ExecWhile(_, _, _, _, _), ExecFor(_, _, _, _, _, _)
ExecSeq(N, m, a, ss, j) ==
  IF ~Ok(m) \/ j > Len(ss) THEN m ELSE ExecSeq(N, Exec(N, m, a, ss[j]), a, ss, j + 1)

Exec(N, m, a, s) ==
  LET n == N[s] IN
  IF ~Ok(m) THEN m
  ELSE IF n.k = "assign" THEN
       LET m1 == Eval(N, m, a, n.v) IN IF ~Ok(m1) THEN m1 ELSE Store(m1, n.t, m1.val)
  ELSE IF n.k = "expr" THEN Eval(N, m, a, n.v)
  ELSE IF n.k = "return" THEN
       IF n.v = 0 THEN [m EXCEPT !.status = "ret", !.val = CNone]
       ELSE LET m1 == Eval(N, m, a, n.v) IN IF ~Ok(m1) THEN m1 ELSE [m1 EXCEPT !.status = "ret"]
  ELSE IF n.k = "pass" THEN m
  ELSE IF n.k = "break" THEN [m EXCEPT !.status = "brk"]
  ELSE IF n.k = "continue" THEN [m EXCEPT !.status = "cnt"]
  ELSE IF n.k = "if" THEN
       LET m1 == Eval(N, m, a, n.test) IN
       IF ~Ok(m1) THEN m1 ELSE ExecSeq(N, m1, a, IF Truthy(m1.val) THEN n.body ELSE n.orelse, 1)
  ELSE IF n.k = "while" THEN ExecWhile(N, m, a, s, MaxD + 2)
  ELSE IF n.k = "aug" THEN
       IF n.t \notin DOMAIN m.st THEN Exc(m, "Unbound")
       ELSE LET m1 == Eval(N, m, a, n.v) IN
            IF ~Ok(m1) THEN m1
            ELSE IF ~IsOpaque(m.st[n.t]) /\ ~IsOpaque(m1.val) THEN Unmodelled(m1)
            \* in-place add on an opaque value; a constant on the left falls back to the reflected binary operator
            ELSE LET m2 == Oracle(m1, a, <<IF IsOpaque(m.st[n.t]) THEN "iop" ELSE "op", Vid(m.st[n.t]), Vid(m1.val)>>) IN
                 IF ~Ok(m2) THEN m2 ELSE Store(m2, n.t, m2.val)
  ELSE IF n.k = "for" THEN
       LET m1 == Eval(N, m, a, n.iter) IN
       IF ~Ok(m1) THEN m1
       ELSE IF m1.val.tag # "l" THEN Exc(m1, "NotIterable")
       ELSE ExecFor(N, m1, a, s, m1.val.items, 1)
  ELSE Exc(m, "BadStmt")

\* a loop whose test creates no event could spin forever on one script: such a run is cut by fuel and reported as "more"
\* (never a complete behaviour, hence never replayed)
ExecWhile(N, m, a, s, fuel) ==
  IF fuel = 0 THEN [m EXCEPT !.status = "more", !.need = "fuel"]
  ELSE
  LET n == N[s] m1 == Eval(N, m, a, n.test) IN
  IF ~Ok(m1) THEN m1
  ELSE IF ~Truthy(m1.val) THEN ExecSeq(N, m1, a, n.orelse, 1)
  ELSE LET m3 == ExecSeq(N, m1, a, n.body, 1) IN
       IF m3.status = "brk" THEN [m3 EXCEPT !.status = "ok"]
       ELSE IF m3.status \in {"ok", "cnt"} THEN ExecWhile(N, [m3 EXCEPT !.status = "ok"], a, s, IF m3.i > m.i THEN MaxD + 2 ELSE fuel - 1)
       ELSE m3

ExecFor(N, m, a, s, items, j) ==
  LET n == N[s] IN
  IF j > Len(items) THEN ExecSeq(N, m, a, n.orelse, 1)
  ELSE LET m3 == ExecSeq(N, Store(m, n.t, items[j]), a, n.body, 1) IN
       IF m3.status = "brk" THEN [m3 EXCEPT !.status = "ok"]
       ELSE IF m3.status \in {"ok", "cnt"} THEN ExecFor(N, [m3 EXCEPT !.status = "ok"], a, s, items, j + 1)
       ELSE m3

M0 == [need |-> "", st |-> [x \in {} |-> CNone], i |-> 1, ev |-> <<>>, status |-> "ok", val |-> CNone]
\* parameters: each parameter is an oracle value (it cannot raise: "R" is read as a falsy value)
RECURSIVE Bind(_, _, _, _)
Bind(P, m, a, j) ==
  IF j > Len(P.params) \/ ~Ok(m) THEN m
  ELSE IF m.i > Len(a) THEN [m EXCEPT !.status = "more", !.need = "param"]
  ELSE LET x == a[m.i]
           m1 == [m EXCEPT !.i = @ + 1, !.ev = Append(@, <<<<"param", P.params[j]>>, x>>), !.val = Val(Len(m.ev) + 1, x = "T")]
       IN Bind(P, Store(m1, P.params[j], m1.val), a, j + 1)
Run(p, a) ==
  LET P == Progs[p]
      m == ExecSeq(P.N, Bind(P, M0, a, 1), a, P.body, 1)
  IN IF m.status = "ok" THEN [m EXCEPT !.status = "ret", !.val = CNone] ELSE m

\* what an execution shows to the outside: events and final outcome
Outcome(m) == IF m.status = "ret" THEN <<"ret", Vid(m.val)>> ELSE IF m.status = "exc" THEN <<"exc", m.val.c>> ELSE <<m.status, "">>

(****************************** explore (E3) ******************************)
VARIABLES pid, ans, done
vars == <<pid, ans, done>>
Alphabet(need) == IF need = "len" THEN {"0", "1", "2", "R"} ELSE IF need = "param" THEN {"T", "F"} ELSE {"T", "F", "R"}

DoneOf(m) == IF m.status = "more" THEN "more" ELSE IF m.status = "unmodelled" THEN "skip" ELSE "done"
InitExplore == /\ pid \in 1..Len(Progs) /\ ans = <<>> /\ done = DoneOf(Run(pid, <<>>))
NextExplore ==
  /\ done = "more"
  /\ Len(ans) < MaxD
  /\ LET m == Run(pid, ans) IN
     /\ m.need # "fuel"
     /\ \E x \in Alphabet(m.need) :
          /\ ans' = Append(ans, x)
          /\ done' = DoneOf(Run(pid, ans'))
          /\ UNCHANGED pid

(******************************* trace (E2) *******************************)
\* Cases[i] = [pid, ans, who, events, outcome]; events are sequences of <<what..., answer>> flattened to strings by the harness
VARIABLES tid, bad
Flat(ev) == [j \in 1..Len(ev) |-> ev[j][1] \o <<ev[j][2]>>]
Verdict(c) ==
  LET m == Run(c.pid, c.ans) IN
  IF m.status = "more" THEN {"MACHINERY-script-incomplete"}
  ELSE IF m.status = "unmodelled" THEN {}
  ELSE (IF Flat(m.ev) # c.events THEN {"Events"} ELSE {})
       \cup (IF Outcome(m) # c.outcome THEN {"Outcome"} ELSE {})

Init == IF Mode = "explore"
        THEN InitExplore /\ tid = 0 /\ bad = {}
        ELSE tid \in 1..Len(Cases) /\ bad = Verdict(Cases[tid]) /\ pid = 0 /\ ans = <<>> /\ done = "done"
Next == IF Mode = "explore" THEN NextExplore /\ UNCHANGED <<tid, bad>> ELSE UNCHANGED <<pid, ans, done, tid, bad>>
Holds == bad = {}
=============================================================================
