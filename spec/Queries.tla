------------------------------ MODULE Queries ------------------------------
(***************************************************************************)
(* C13: the graph queries of the library against their definitions.        *)
(* A graph is g : Node -> Seq(Name) where a Name may lie outside DOMAIN g  *)
(* (external target), may repeat (duplicate target) and may be the node    *)
(* itself (self loop).  `b` : Node -> Seq(Name) are declared back edges    *)
(* (forward targets = g minus b, raw targets = g).  Every definition below *)
(* is path- or set-based; no algorithm of the library is transcribed.      *)
(*                                                                         *)
(* Recorded case: [g, b, scc, head, he, ee, reach, doms, pdoms, idoms,     *)
(* ipdoms] as returned by the real code; Verdict = set of queries whose    *)
(* recorded result differs from the definition.                            *)
(***************************************************************************)
EXTENDS Graph, Json, IOUtils

Cases == JsonDeserialize(IOEnv.CASES)
Exh   == IOEnv.EXH        \* "" or "n,d" : certify that the recorded plain graphs are ALL graphs with n nodes, out-degree <= d

VARIABLES tid, bad

NodesOf(g) == DOMAIN g
FwdT(c, u) == Without(c.g[u], SeqSet(c.b[u]))                 \* jump_targets
Adj(c)  == [u \in NodesOf(c.g) |-> SeqSet(FwdT(c, u)) \cap NodesOf(c.g)]   \* edges that stay in the graph
AdjX(c) == [u \in NodesOf(c.g) |-> SeqSet(FwdT(c, u))]                      \* all forward edges, external ones included
RevOf(A) == [v \in DOMAIN A |-> {u \in DOMAIN A : v \in A[u]}]

\* ---- definitions ----
DefSCC(c) == SCCs(Adj(c))
Heads(c) == {h \in NodesOf(c.g) : \A u \in NodesOf(c.g) : h \notin SeqSet(FwdT(c, u))}
\* headers/entries look at raw targets (declared back edges included), as documented
DefHeaders(c, S) == UNION {S \cap SeqSet(c.g[o]) : o \in NodesOf(c.g) \ S}
DefEntries(c, S) == {o \in NodesOf(c.g) \ S : S \cap SeqSet(c.g[o]) # {}}
DefExiting(c, S) == {n \in S : FwdT(c, n) = <<>> \/ \E t \in SeqSet(FwdT(c, n)) : t \notin S}
DefExits(c, S)   == UNION {SeqSet(FwdT(c, n)) \ S : n \in S}
\* a path of at least one edge from a to z; only nodes of the graph are expanded
DefReach(c, a, z) == z \in ReachPlus(AdjX(c), a)
\* dominance by paths: a dominates z iff every path from an entry to z passes a
ReachAvoiding(A, start, a) == Grow([u \in DOMAIN A |-> A[u] \ {a}], start, start)
DomBy(A) ==
  LET R == RevOf(A)
      E == {e \in DOMAIN A : R[e] = {}}
  IN [z \in DOMAIN A |-> {z} \cup {a \in DOMAIN A \ {z} : z \notin ReachAvoiding(A, E \ {a}, a)}]
HasEntry(A) == \E e \in DOMAIN A : RevOf(A)[e] = {}
DefDoms(c)  == DomBy(Adj(c))
DefPDoms(c) == DomBy(RevOf(Adj(c)))
\* immediate dominator: the strict dominator dominated by all other strict dominators
DefIDom(D, k) == LET sd == D[k] \ {k} IN {d \in sd : \A d2 \in sd : d2 \in D[d]}
AllFromEntries(A) == LET E == {e \in DOMAIN A : RevOf(A)[e] = {}} IN Grow(A, E, E) = DOMAIN A

\* ---- comparison with the recorded results ----
AsSet(seq) == SeqSet(seq)
SubsetKeyed(S) == S    \* subsets are recorded as sequences of names

OkSCC(c) == /\ {AsSet(x) : x \in AsSet(c.scc)} = DefSCC(c)
            /\ Len(c.scc) = Cardinality(DefSCC(c))
OkHead(c) == IF Cardinality(Heads(c)) = 1 THEN {c.head} = Heads(c) ELSE c.head = "!AssertionError"
OkHE(c) == \A j \in 1..Len(c.he) :
             LET S == AsSet(c.he[j].s) hd == DefHeaders(c, S) IN
             IF hd # {} THEN c.he[j].exc = "" /\ AsSet(c.he[j].h) = hd /\ AsSet(c.he[j].e) = DefEntries(c, S)
                             /\ NoDupSeq(c.he[j].h) /\ NoDupSeq(c.he[j].e)
             ELSE IF Cardinality(Heads(c)) = 1 THEN c.he[j].exc = "" /\ AsSet(c.he[j].h) = Heads(c) /\ c.he[j].e = <<>>
             ELSE c.he[j].exc = "AssertionError"
OkEE(c) == \A j \in 1..Len(c.ee) :
             LET S == AsSet(c.ee[j].s) IN
             /\ AsSet(c.ee[j].x) = DefExiting(c, S) /\ AsSet(c.ee[j].t) = DefExits(c, S)
             /\ NoDupSeq(c.ee[j].x) /\ NoDupSeq(c.ee[j].t)
OkReach(c) == \A j \in 1..Len(c.reach) : c.reach[j][3] = DefReach(c, c.reach[j][1], c.reach[j][2])
DomsEq(rec, D) == DOMAIN rec = DOMAIN D /\ \A k \in DOMAIN D : AsSet(rec[k]) = D[k] /\ NoDupSeq(rec[k])
OkDoms(c)  == IF HasEntry(Adj(c)) THEN c.domsexc = "" /\ DomsEq(c.doms, DefDoms(c)) ELSE c.domsexc = "RuntimeError"
OkPDoms(c) == IF HasEntry(RevOf(Adj(c))) THEN c.pdomsexc = "" /\ DomsEq(c.pdoms, DefPDoms(c)) ELSE c.pdomsexc = "RuntimeError"
OkIDom(rec, D) == \A k \in DOMAIN D : LET i == DefIDom(D, k) IN
                    IF i = {} THEN k \notin DOMAIN rec ELSE k \in DOMAIN rec /\ {rec[k]} = i
OkIDoms(c)  == (HasEntry(Adj(c)) /\ AllFromEntries(Adj(c))) => (c.idomsexc = "" /\ OkIDom(c.idoms, DefDoms(c)))
OkIPDoms(c) == (HasEntry(RevOf(Adj(c))) /\ AllFromEntries(RevOf(Adj(c)))) => (c.ipdomsexc = "" /\ OkIDom(c.ipdoms, DefPDoms(c)))

Verdict(c) ==
  {q \in {"compute_scc", "find_head", "find_headers_and_entries", "find_exiting_and_exits", "is_reachable_dfs",
          "_doms", "_post_doms", "_imm_doms(doms)", "_imm_doms(post_doms)"} :
     ~ CASE q = "compute_scc" -> OkSCC(c)
         [] q = "find_head" -> OkHead(c)
         [] q = "find_headers_and_entries" -> OkHE(c)
         [] q = "find_exiting_and_exits" -> OkEE(c)
         [] q = "is_reachable_dfs" -> OkReach(c)
         [] q = "_doms" -> OkDoms(c)
         [] q = "_post_doms" -> OkPDoms(c)
         [] q = "_imm_doms(doms)" -> OkIDoms(c)
         [] q = "_imm_doms(post_doms)" -> OkIPDoms(c)}

\* ---- the exhaustive domain Q(n, d): all graphs over nodes "0".."n-1" and one external name "x" ----
NodeNames(n) == {ToString(i) : i \in 0..(n - 1)}
SeqsUpTo(S, d) == UNION {[1..k -> S] : k \in 0..d}
QDomain(n, d) == [NodeNames(n) -> SeqsUpTo(NodeNames(n) \cup {"x"}, d)]
ExhN == atoi(IOEnv.EXHN)
ExhD == atoi(IOEnv.EXHD)
Certify ==
  IF ExhN = 0 THEN {}
  ELSE LET rec == {Cases[i].g : i \in {j \in 1..Len(Cases) : "lvl" \notin DOMAIN Cases[j] /\ Cases[j].plain /\ Cardinality(DOMAIN Cases[j].g) = ExhN}}
       IN IF rec = QDomain(ExhN, ExhD) THEN {} ELSE {"MACHINERY-domain-not-exhaustive"}

(***************************************************************************)
(* The same two subset queries asked of the SUB-GRAPH of a region inside a  *)
(* restructured hierarchy (case with field "lvl"): H is the whole hierarchy,*)
(* the graph queried is level lvl.  A subset nobody of that level jumps into*)
(* is headed by the head of the level, and it is entered from wherever the  *)
(* enclosing region is entered - looked up level by level towards the root. *)
(***************************************************************************)
LevelH(H, l) == {n \in DOMAIN H : H[n].up = l}
FwdH(b) == Without(b.jt, SeqSet(b.be))
HeadsH(H, l) == {h \in LevelH(H, l) : \A u \in LevelH(H, l) : h \notin SeqSet(FwdH(H[u]))}
RECURSIVE EntriesUp(_, _, _, _)
EntriesUp(H, root, r, fuel) ==
  IF r = root \/ r \notin DOMAIN H \/ fuel = 0 THEN {}
  ELSE LET P == {o \in LevelH(H, H[r].up) \ {r} : r \in SeqSet(H[o].jt)} IN
       IF P # {} THEN P ELSE EntriesUp(H, root, H[r].up, fuel - 1)
HierVerdict(c) ==
  LET H == c.H l == c.lvl S == SeqSet(c.s)
      hd == UNION {S \cap SeqSet(H[o].jt) : o \in LevelH(H, l) \ S}
      en == {o \in LevelH(H, l) \ S : S \cap SeqSet(H[o].jt) # {}}
      okHE == IF hd # {} THEN c.heexc = "" /\ SeqSet(c.h) = hd /\ SeqSet(c.e) = en /\ NoDupSeq(c.h) /\ NoDupSeq(c.e)
              ELSE IF Cardinality(HeadsH(H, l)) = 1
                   THEN c.heexc = "" /\ SeqSet(c.h) = HeadsH(H, l) /\ SeqSet(c.e) = EntriesUp(H, c.root, l, Cardinality(DOMAIN H) + 1) /\ NoDupSeq(c.e)
                   ELSE c.heexc = "AssertionError"
      exiting == {n \in S : FwdH(H[n]) = <<>> \/ \E t \in SeqSet(FwdH(H[n])) : t \notin S}
      exits == UNION {SeqSet(FwdH(H[n])) \ S : n \in S}
      okEE == SeqSet(c.x) = exiting /\ SeqSet(c.t) = exits /\ NoDupSeq(c.x) /\ NoDupSeq(c.t)
  IN (IF okHE THEN {} ELSE {"find_headers_and_entries(sub-graph)"}) \cup (IF okEE THEN {} ELSE {"find_exiting_and_exits(sub-graph)"})

Init == /\ tid \in 0..Len(Cases)
        /\ bad = IF tid = 0 THEN Certify ELSE IF "lvl" \in DOMAIN Cases[tid] THEN HierVerdict(Cases[tid]) ELSE Verdict(Cases[tid])
Next == UNCHANGED <<tid, bad>>
Holds == bad = {}
=============================================================================
