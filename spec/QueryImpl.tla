----------------------------- MODULE QueryImpl -----------------------------
(***************************************************************************)
(* Impl layer of the graph queries (C13; used by the pipeline model too):   *)
(* executable transcriptions of                                              *)
(*   - numba_scfg/networkx_vendored/scc.py  scc()   (iterative Tarjan)      *)
(*   - SCFG.is_reachable_dfs                                                 *)
(*   - transformations._imm_doms                                             *)
(* as deterministic operators (the order in which Python iterates a dict or *)
(* a list is an explicit argument), and of                                   *)
(*   - transformations._find_dominators_internal                             *)
(* as a STATE MACHINE whose `todo.extend(succs_table[n])` pushes the set in *)
(* an arbitrary order (set iteration order depends on the string hash seed) *)
(* - so that TLC explores every order the code could take.                   *)
(*                                                                           *)
(* MODE = "fun": Init enumerates every graph of QDomain(n, d) itself and     *)
(*   checks  Impl = Definition  (Graph!SCCs, ReachPlus, path-based DomBy).   *)
(* MODE = "doms": the worklist machine from every graph of QDomain(n, d),    *)
(*   forward and reversed; invariants: the monotonicity assertion of the    *)
(*   code never fails (an anchor of C02) and every terminal state holds the *)
(*   path-based dominator sets whatever order was taken (the design-level   *)
(*   statement of C12 for this algorithm).                                   *)
(* MODE = "trace": recorded results of the real compute_scc (emission order *)
(*   included) must equal the transcription's: conformance.                  *)
(***************************************************************************)
EXTENDS Graph, Json, IOUtils

Mode == IOEnv.MODE
QN   == atoi(IOEnv.QN)
QD   == atoi(IOEnv.QD)

(***************************************************************************)
(* Tarjan, as vendored.  G : node -> Seq(node) (successors inside the       *)
(* graph, list order), order : Seq(node) = iteration order of the graph.    *)
(* One call of TStep = one iteration of `while queue`.                       *)
(***************************************************************************)
MinOf(a, b) == IF a < b THEN a ELSE b
FirstNew(s, pre) == LET J == {j \in 1..Len(s) : s[j] \notin DOMAIN pre} IN IF J = {} THEN 0 ELSE Min(J)
RECURSIVE LowFold(_, _, _, _, _, _)
LowFold(s, j, v, pre, low, found) ==          \* the `for w in G[v]` loop that computes lowlink[v]; returns the number
  IF j > Len(s) THEN low[v]
  ELSE LET w == s[j] IN
       IF w \in found THEN LowFold(s, j + 1, v, pre, low, found)
       ELSE LET nv == IF pre[w] > pre[v] THEN MinOf(low[v], low[w]) ELSE MinOf(low[v], pre[w])
            IN LowFold(s, j + 1, v, pre, [low EXCEPT ![v] = nv], found)
RECURSIVE PopWhile(_, _, _, _)
PopWhile(sq, pre, v, acc) ==                  \* while scc_queue and preorder[scc_queue[-1]] > preorder[v]: pop
  IF Len(sq) > 0 /\ pre[sq[Len(sq)]] > pre[v] THEN PopWhile(SubSeq(sq, 1, Len(sq) - 1), pre, v, acc \cup {sq[Len(sq)]})
  ELSE <<sq, acc>>
Put1(f, k, x) == [y \in DOMAIN f \cup {k} |-> IF y = k THEN x ELSE f[y]]

RECURSIVE TWhile(_, _), TFor(_, _, _, _)
TWhile(G, st) ==
  IF st.queue = <<>> THEN st
  ELSE LET v == st.queue[Len(st.queue)]
           i2 == IF v \in DOMAIN st.pre THEN st.i ELSE st.i + 1
           pre2 == IF v \in DOMAIN st.pre THEN st.pre ELSE Put1(st.pre, v, st.i + 1)
           fn == FirstNew(G[v], pre2)
       IN IF fn # 0
          THEN TWhile(G, [st EXCEPT !.i = i2, !.pre = pre2, !.queue = Append(st.queue, G[v][fn])])
          ELSE LET low1 == Put1(st.low, v, pre2[v])
                   lv == LowFold(G[v], 1, v, pre2, low1, st.found)
                   low2 == [low1 EXCEPT ![v] = lv]
                   q2 == SubSeq(st.queue, 1, Len(st.queue) - 1)
               IN IF lv = pre2[v]
                  THEN LET pw == PopWhile(st.sq, pre2, v, {v})
                       IN TWhile(G, [i |-> i2, pre |-> pre2, low |-> low2, found |-> st.found \cup pw[2], sq |-> pw[1],
                                     queue |-> q2, out |-> Append(st.out, pw[2])])
                  ELSE TWhile(G, [i |-> i2, pre |-> pre2, low |-> low2, found |-> st.found, sq |-> Append(st.sq, v),
                                  queue |-> q2, out |-> st.out])
TFor(G, order, j, st) ==
  IF j > Len(order) THEN st
  ELSE IF order[j] \in st.found THEN TFor(G, order, j + 1, st)
  ELSE TFor(G, order, j + 1, TWhile(G, [st EXCEPT !.queue = <<order[j]>>]))
\* Seq of sets, in the order the generator yields them
Tarjan(G, order) ==
  TFor(G, order, 1, [i |-> 0, pre |-> <<>>, low |-> <<>>, found |-> {}, sq |-> <<>>, queue |-> <<>>, out |-> <<>>]).out

(***************************************************************************)
(* is_reachable_dfs(begin, end).  X : node -> Seq(name) forward targets     *)
(* (names outside DOMAIN X are never expanded).                              *)
(***************************************************************************)
RECURSIVE Dfs(_, _, _, _)
Dfs(X, stack, seen, end) ==
  IF stack = <<>> THEN FALSE
  ELSE LET b == stack[Len(stack)] rest == SubSeq(stack, 1, Len(stack) - 1) IN
       IF b \in seen THEN Dfs(X, rest, seen, end)
       ELSE IF b = end THEN TRUE
       ELSE Dfs(X, IF b \in DOMAIN X THEN rest \o X[b] ELSE rest, seen \cup {b}, end)
ReachDfs(X, a, z) == Dfs(X, X[a], {}, z)

(***************************************************************************)
(* _imm_doms(doms): repeated in-place subtraction, iteration in `order`.    *)
(* The inner `for v in list(vs): vs -= idoms[v]` walks a snapshot of vs.    *)
(***************************************************************************)
RECURSIVE ISub(_, _, _, _), IPass(_, _, _, _), IFix(_, _, _)
ISub(id, k, snap, j) == IF j > Len(snap) THEN id ELSE ISub([id EXCEPT ![k] = @ \ id[snap[j]]], k, snap, j + 1)
IPass(id, order, j, changed) ==
  IF j > Len(order) THEN <<id, changed>>
  ELSE LET k == order[j]
           snap == SelectSeq(order, LAMBDA v : v \in id[k])          \* list(vs): some order; ties cannot matter (checked)
           id2 == ISub(id, k, snap, 1)
       IN IPass(id2, order, j + 1, changed \/ Cardinality(id2[k]) < Cardinality(id[k]))
IFix(id, order, fuel) ==
  IF fuel = 0 THEN id ELSE LET p == IPass(id, order, 1, FALSE) IN IF p[2] THEN IFix(p[1], order, fuel - 1) ELSE p[1]
ImmDoms(D, order) == IFix([k \in DOMAIN D |-> D[k] \ {k}], order, Cardinality(DOMAIN D) + 2)
\* the `[v] = vs` unpacking raises unless every remaining set has at most one element
ImmDomsOk(D, order) == \A k \in DOMAIN D : Cardinality(ImmDoms(D, order)[k]) <= 1

(***************************************************************************)
(* Definitions (the contract side).                                          *)
(***************************************************************************)
RevOf(A) == [v \in DOMAIN A |-> {u \in DOMAIN A : v \in A[u]}]
ReachAvoiding(A, start, a) == Grow([u \in DOMAIN A |-> A[u] \ {a}], start, start)
DomBy(A) ==
  LET R == RevOf(A)
      E == {e \in DOMAIN A : R[e] = {}}
  IN [z \in DOMAIN A |-> {z} \cup {a \in DOMAIN A \ {z} : z \notin ReachAvoiding(A, E \ {a}, a)}]
DefIDom(D, k) == LET sd == D[k] \ {k} IN {d \in sd : \A d2 \in sd : d2 \in D[d]}
AllFromEntries(A) == LET E == {e \in DOMAIN A : RevOf(A)[e] = {}} IN Grow(A, E, E) = DOMAIN A

(***************************************************************************)
(* Domain: every graph over "0".."n-1" and the external name "x".            *)
(***************************************************************************)
NodeNames(n) == {ToString(i) : i \in 0..(n - 1)}
NodeOrder(n) == [i \in 1..n |-> ToString(i - 1)]
SeqsUpTo(S, d) == UNION {[1..k -> S] : k \in 0..d}
QDomain(n, d) == [NodeNames(n) -> SeqsUpTo(NodeNames(n) \cup {"x"}, d)]
InG(g) == [u \in DOMAIN g |-> SelectSeq(g[u], LAMBDA t : t \in DOMAIN g)]
AdjOf(g) == [u \in DOMAIN g |-> SeqSet(g[u]) \cap DOMAIN g]
AdjXOf(g) == [u \in DOMAIN g |-> SeqSet(g[u])]

FunBad(g) ==
  LET order == NodeOrder(Cardinality(DOMAIN g))
      A == AdjOf(g)
      t == Tarjan(InG(g), order)
      D == DomBy(A)
      P == DomBy(RevOf(A))
  IN (IF SeqSet(t) = SCCs(A) /\ Len(t) = Cardinality(SCCs(A)) THEN {} ELSE {"scc"})
     \cup (IF \A a \in DOMAIN g, z \in DOMAIN g \cup {"x"} : ReachDfs(g, a, z) = (z \in ReachPlus(AdjXOf(g), a)) THEN {} ELSE {"reach"})
     \cup (IF AllFromEntries(A) /\ \E e \in DOMAIN A : RevOf(A)[e] = {}
           THEN (IF ImmDomsOk(D, order) /\ \A k \in DOMAIN g : ImmDoms(D, order)[k] = DefIDom(D, k) THEN {} ELSE {"imm_doms"})
           ELSE {})
     \cup (IF AllFromEntries(RevOf(A)) /\ \E e \in DOMAIN A : A[e] = {}
           THEN (IF ImmDomsOk(P, order) /\ \A k \in DOMAIN g : ImmDoms(P, order)[k] = DefIDom(P, k) THEN {} ELSE {"imm_post_doms"})
           ELSE {})

(***************************************************************************)
(* _find_dominators_internal as a state machine.                             *)
(***************************************************************************)
VARIABLES g, dir, doms, todo, bad, tid
vars == <<g, dir, doms, todo, bad, tid>>

PredT == IF dir = "fwd" THEN RevOf(AdjOf(g)) ELSE AdjOf(g)          \* preds_table
SuccT == IF dir = "fwd" THEN AdjOf(g) ELSE RevOf(AdjOf(g))          \* succs_table
Entries == {k \in DOMAIN g : PredT[k] = {}}
Perms(S) == {s \in [1..Cardinality(S) -> S] : \A i, j \in 1..Cardinality(S) : i # j => s[i] # s[j]}
InterAll(SS, U) == {x \in U : \A S \in SS : x \in S}

Cases == IF Mode = "trace" THEN JsonDeserialize(IOEnv.CASES) ELSE <<>>
TraceBad(c) ==
  LET order == c.order
      G == [u \in DOMAIN c.g |-> SelectSeq(c.f[u], LAMBDA t : t \in DOMAIN c.g)]
      t == Tarjan(G, order)
  IN IF Len(t) = Len(c.scc) /\ \A j \in 1..Len(t) : t[j] = SeqSet(c.scc[j]) THEN {} ELSE {"compute_scc-order"}

Init ==
  CASE Mode = "fun" ->
         /\ g \in QDomain(QN, QD) /\ dir = "-" /\ doms = <<>> /\ todo = <<>> /\ tid = 0
         /\ bad = FunBad(g)
    [] Mode = "doms" ->
         /\ g \in QDomain(QN, QD) /\ dir \in {"fwd", "rev"} /\ tid = 0
         /\ Entries # {}                                               \* otherwise the code raises RuntimeError before the loop
         /\ doms = [k \in DOMAIN g |-> IF k \in Entries THEN {k} ELSE DOMAIN g]
         /\ todo = SelectSeq(NodeOrder(QN), LAMBDA k : k \notin Entries)
         /\ bad = {}
    [] OTHER ->
         /\ tid \in 1..Len(Cases) /\ g = <<>> /\ dir = "-" /\ doms = <<>> /\ todo = <<>>
         /\ bad = TraceBad(Cases[tid])

DomStep ==
  /\ Mode = "doms" /\ todo # <<>> /\ bad = {}
  /\ LET n == todo[Len(todo)]
         rest == SubSeq(todo, 1, Len(todo) - 1)
         nd == {n} \cup (IF PredT[n] = {} THEN {} ELSE InterAll({doms[p] : p \in PredT[n]}, DOMAIN g))
     IN IF n \in Entries THEN todo' = rest /\ UNCHANGED <<doms, bad>>
        ELSE IF nd = doms[n] THEN todo' = rest /\ UNCHANGED <<doms, bad>>
        ELSE /\ bad' = IF Cardinality(nd) < Cardinality(doms[n]) THEN {} ELSE {"assert-monotone"}
             /\ doms' = [doms EXCEPT ![n] = nd]
             /\ \E p \in Perms(SuccT[n]) : todo' = rest \o p
  /\ UNCHANGED <<g, dir, tid>>
Next == DomStep \/ (Mode # "doms" /\ UNCHANGED vars)

Holds == bad = {}
\* whatever order the pushes took, the fix-point is the path-based dominator relation
Terminal == (Mode = "doms" /\ todo = <<>>) => doms = DomBy(IF dir = "fwd" THEN AdjOf(g) ELSE RevOf(AdjOf(g)))
\* the worklist never grows beyond a bound that depends only on the graph size (termination of the while loop)
Bounded == Mode = "doms" => Len(todo) <= QN * QN * QN + QN
=============================================================================
