----------------------------- MODULE QueryImpl -----------------------------
(***************************************************************************)
(* Impl layer of the graph queries (C13; used by the pipeline model too):   *)
(* executable transcriptions of                                              *)
(*   - numba_scfg/networkx_vendored/scc.py  scc()   (iterative Tarjan)      *)
(*   - SCFG.is_reachable_dfs                                                 *)
(*   - transformations._imm_doms                                             *)
(* as deterministic operators (the order in which Python iterates a dict or *)
(* a list is an explicit argument), and of                                   *)
(*   - transformations._find_dominators_internal                             *)
(* as a STATE MACHINE whose `todo.extend(succs_table[n])` pushes the set in *)
(* an arbitrary order (set iteration order depends on the string hash seed) *)
(* - so that TLC explores every order the code could take.                   *)
(*                                                                           *)
(* MODE = "fun": Init enumerates every graph of QDomain(n, d) itself and     *)
(*   checks  Impl = Definition  (Graph!SCCs, ReachPlus, path-based DomBy).   *)
(* MODE = "doms": the worklist machine from every graph of QDomain(n, d),    *)
(*   forward and reversed; invariants: the monotonicity assertion of the    *)
(*   code never fails (an anchor of C02) and every terminal state holds the *)
(*   path-based dominator sets whatever order was taken (the design-level   *)
(*   statement of C12 for this algorithm).                                   *)
(* MODE = "trace": recorded results of the real compute_scc (emission order *)
(*   included) must equal the transcription's: conformance.                  *)
(***************************************************************************)
EXTENDS Algo, Json, IOUtils

Mode == IOEnv.MODE
QN   == atoi(IOEnv.QN)
QD   == atoi(IOEnv.QD)

(***************************************************************************)
(* Definitions (the contract side).                                          *)
(***************************************************************************)
RevOf(A) == [v \in DOMAIN A |-> {u \in DOMAIN A : v \in A[u]}]
ReachAvoiding(A, start, a) == Grow([u \in DOMAIN A |-> A[u] \ {a}], start, start)
DomBy(A) ==
  LET R == RevOf(A)
      E == {e \in DOMAIN A : R[e] = {}}
  IN [z \in DOMAIN A |-> {z} \cup {a \in DOMAIN A \ {z} : z \notin ReachAvoiding(A, E \ {a}, a)}]
DefIDom(D, k) == LET sd == D[k] \ {k} IN {d \in sd : \A d2 \in sd : d2 \in D[d]}
AllFromEntries(A) == LET E == {e \in DOMAIN A : RevOf(A)[e] = {}} IN Grow(A, E, E) = DOMAIN A

(***************************************************************************)
(* Domain: every graph over "0".."n-1" and the external name "x".            *)
(***************************************************************************)
NodeNames(n) == {ToString(i) : i \in 0..(n - 1)}
NodeOrder(n) == [i \in 1..n |-> ToString(i - 1)]
SeqsUpTo(S, d) == UNION {[1..k -> S] : k \in 0..d}
QDomain(n, d) == [NodeNames(n) -> SeqsUpTo(NodeNames(n) \cup {"x"}, d)]
InG(g) == [u \in DOMAIN g |-> SelectSeq(g[u], LAMBDA t : t \in DOMAIN g)]
AdjOf(g) == [u \in DOMAIN g |-> SeqSet(g[u]) \cap DOMAIN g]
AdjXOf(g) == [u \in DOMAIN g |-> SeqSet(g[u])]

FunBad(g) ==
  LET order == NodeOrder(Cardinality(DOMAIN g))
      A == AdjOf(g)
      t == Tarjan(InG(g), order)
      D == DomBy(A)
      P == DomBy(RevOf(A))
  IN (IF SeqSet(t) = SCCs(A) /\ Len(t) = Cardinality(SCCs(A)) THEN {} ELSE {"scc"})
     \cup (IF \A a \in DOMAIN g, z \in DOMAIN g \cup {"x"} : ReachDfs(g, a, z) = (z \in ReachPlus(AdjXOf(g), a)) THEN {} ELSE {"reach"})
     \cup (IF AllFromEntries(A) /\ \E e \in DOMAIN A : RevOf(A)[e] = {}
           THEN (IF ImmDomsOk(D, order) /\ \A k \in DOMAIN g : ImmDoms(D, order)[k] = DefIDom(D, k) THEN {} ELSE {"imm_doms"})
           ELSE {})
     \cup (IF AllFromEntries(RevOf(A)) /\ \E e \in DOMAIN A : A[e] = {}
           THEN (IF ImmDomsOk(P, order) /\ \A k \in DOMAIN g : ImmDoms(P, order)[k] = DefIDom(P, k) THEN {} ELSE {"imm_post_doms"})
           ELSE {})

(***************************************************************************)
(* _find_dominators_internal as a state machine.                             *)
(***************************************************************************)
VARIABLES g, dir, doms, todo, bad, tid
vars == <<g, dir, doms, todo, bad, tid>>

PredT == IF dir = "fwd" THEN RevOf(AdjOf(g)) ELSE AdjOf(g)          \* preds_table
SuccT == IF dir = "fwd" THEN AdjOf(g) ELSE RevOf(AdjOf(g))          \* succs_table
Entries == {k \in DOMAIN g : PredT[k] = {}}
Perms(S) == {s \in [1..Cardinality(S) -> S] : \A i, j \in 1..Cardinality(S) : i # j => s[i] # s[j]}
InterAll(SS, U) == {x \in U : \A S \in SS : x \in S}

Cases == IF Mode = "trace" THEN JsonDeserialize(IOEnv.CASES) ELSE <<>>
TraceBad(c) ==
  LET order == c.order
      G == [u \in DOMAIN c.g |-> SelectSeq(Without(c.g[u], SeqSet(c.b[u])), LAMBDA t : t \in DOMAIN c.g)]
      t == Tarjan(G, order)
  IN IF Len(t) = Len(c.scc) /\ \A j \in 1..Len(t) : t[j] = SeqSet(c.scc[j]) THEN {} ELSE {"compute_scc-order"}

Init ==
  CASE Mode = "fun" ->
         /\ g \in QDomain(QN, QD) /\ dir = "-" /\ doms = <<>> /\ todo = <<>> /\ tid = 0
         /\ bad = FunBad(g)
    [] Mode = "doms" ->
         /\ g \in QDomain(QN, QD) /\ dir \in {"fwd", "rev"} /\ tid = 0
         /\ Entries # {}                                               \* otherwise the code raises RuntimeError before the loop
         /\ doms = [k \in DOMAIN g |-> IF k \in Entries THEN {k} ELSE DOMAIN g]
         /\ todo = SelectSeq(NodeOrder(QN), LAMBDA k : k \notin Entries)
         /\ bad = {}
    [] OTHER ->
         /\ tid \in 1..Len(Cases) /\ g = <<>> /\ dir = "-" /\ doms = <<>> /\ todo = <<>>
         /\ bad = TraceBad(Cases[tid])

DomStep ==
  /\ Mode = "doms" /\ todo # <<>> /\ bad = {}
  /\ LET n == todo[Len(todo)]
         rest == SubSeq(todo, 1, Len(todo) - 1)
         nd == {n} \cup (IF PredT[n] = {} THEN {} ELSE InterAll({doms[p] : p \in PredT[n]}, DOMAIN g))
     IN IF n \in Entries THEN todo' = rest /\ UNCHANGED <<doms, bad>>
        ELSE IF nd = doms[n] THEN todo' = rest /\ UNCHANGED <<doms, bad>>
        ELSE /\ bad' = IF Cardinality(nd) < Cardinality(doms[n]) THEN {} ELSE {"assert-monotone"}
             /\ doms' = [doms EXCEPT ![n] = nd]
             /\ \E p \in Perms(SuccT[n]) : todo' = rest \o p
  /\ UNCHANGED <<g, dir, tid>>
Next == DomStep \/ (Mode # "doms" /\ UNCHANGED vars)

Holds == bad = {}
\* whatever order the pushes took, the fix-point is the path-based dominator relation
Terminal == (Mode = "doms" /\ todo = <<>>) => doms = DomBy(IF dir = "fwd" THEN AdjOf(g) ELSE RevOf(AdjOf(g)))
\* the worklist never grows beyond a bound that depends only on the graph size (termination of the while loop)
Bounded == Mode = "doms" => Len(todo) <= QN * QN * QN + QN
=============================================================================
