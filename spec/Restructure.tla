---------------------------- MODULE Restructure ----------------------------
(***************************************************************************)
(* E1 for the pipeline: the Impl transcription of                          *)
(*     join_returns ; restructure_loop ; restructure_branch                *)
(* is run BY TLC from every closed CFG of N nodes (the domain is the TLA+   *)
(* set Graph!ClosedCFG, enumerated here shard by shard), and the contract   *)
(* layer - NeverFails (C02), Structured (C03), WellFormed (C04), Conserved  *)
(* (C05), TablesAgree (C06) - is evaluated on the result of every stage.    *)
(* The drivers are Pipeline.tla's: loops in the emission order of the       *)
(* vendored Tarjan over the dict order, sub-regions in iter_subregions      *)
(* order - the model checked here is the one whose results equal the real   *)
(* code's, names included (TracePipeline.tla), on the same exhaustive       *)
(* domain; per-primitive conformance is TraceRestructure.tla's.             *)
(***************************************************************************)
EXTENDS Pipeline, Props, Json, IOUtils

N     == atoi(IOEnv.N)
Shard == atoi(IOEnv.SHARD)          \* index into the successor choices of the entry node
Rank  == JsonDeserialize(IOEnv.RANK)

VARIABLES g, bad

Nodes == 0..(N - 1)
Choices0 == SetToSortSeq(SuccChoices(N), LAMBDA a, b : IF Len(a) # Len(b) THEN Len(a) < Len(b)
                                                        ELSE IF Len(a) = 0 THEN FALSE
                                                        ELSE IF a[1] # b[1] THEN a[1] < b[1] ELSE (Len(a) = 2 /\ a[2] < b[2]))
Root == "meta_region_0"
H0of(gg) == [n \in {ToString(u) : u \in Nodes} |->
               LET u == CHOOSE u \in Nodes : ToString(u) = n IN
               [k |-> "basic", jt |-> [j \in 1..Len(gg[u]) |-> ToString(gg[u][j])], be |-> <<>>, up |-> Root]]
OrigOf(gg) == [n \in {ToString(u) : u \in Nodes} |-> LET u == CHOOSE u \in Nodes : ToString(u) = n IN [j \in 1..Len(gg[u]) |-> ToString(gg[u][j])]]

\* ---- pipeline drivers: Pipeline.tla (dict order, Tarjan emission order, iter_subregions order as in the code) ----
Order0 == [i \in 1..N |-> ToString(i - 1)]
Closed(gg) == RunClosed(H0of(gg), Order0, Root, Ng0)

\* ---- contract layer on the result of every stage ----
St(h) == [H |-> h, root |-> Root, dup |-> <<>>]
CaseOf(gg) == [orig |-> OrigOf(gg), origk |-> [n \in DOMAIN OrigOf(gg) |-> "basic"], origpay |-> [n \in DOMAIN OrigOf(gg) |-> <<>>]]
StageBad(gg, st, nm, final) ==
  IF st.fail \/ HasFail(st.H) THEN {"C02/NeverFails@" \o nm}
  ELSE {"C04/" \o c \o "@" \o nm : c \in FailedWF(St(st.H))}
       \cup {"C05/" \o c \o "@" \o nm : c \in FailedCV(CaseOf(gg), St(st.H), TRUE)}
       \cup {"C06/" \o c \o "@" \o nm : c \in FailedTables(st.H)}
       \cup (IF final THEN {"C03/" \o c : c \in FailedST(CaseOf(gg), St(st.H))} ELSE {})
Verdict(gg) ==
  LET a == Closed(gg)
      b == LoopsFrom(a, Root, Rank)
      c == BranchesFrom(b, Root, Rank)
  IN StageBad(gg, a, "closed", FALSE)
     \cup (IF b.fail THEN StageBad(gg, b, "loops", FALSE)
           ELSE StageBad(gg, b, "loops", FALSE) \cup StageBad(gg, c, "branches", TRUE))

Init == /\ \E h \in [1..(N - 1) -> SuccChoices(N)] :
              /\ g = [u \in Nodes |-> IF u = 0 THEN Choices0[Shard] ELSE h[u]]
              /\ ClosedG(g)
        /\ bad = Verdict(g)
Next == UNCHANGED <<g, bad>>
Holds == bad = {}
=============================================================================
