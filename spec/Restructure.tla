---------------------------- MODULE Restructure ----------------------------
(***************************************************************************)
(* E1 for the pipeline: the Impl transcription of                          *)
(*     join_returns ; restructure_loop ; restructure_branch                *)
(* is run BY TLC from every closed CFG of N nodes (the domain is the TLA+   *)
(* set Graph!ClosedCFG, enumerated here shard by shard), and the contract   *)
(* layer - NeverFails (C02), Structured (C03), WellFormed (C04), Conserved  *)
(* (C05), TablesAgree (C06) - is evaluated on the result of every stage.    *)
(* Driver choices the code makes in an order that is not part of any        *)
(* contract (which loop / region next) are taken in rank order.            *)
(* The link to the code is the per-primitive conformance checked by         *)
(* TraceRestructure.tla on recorded behaviours (same Impl operators).       *)
(***************************************************************************)
EXTENDS Impl, Props, Json, IOUtils

N     == atoi(IOEnv.N)
Shard == atoi(IOEnv.SHARD)          \* index into the successor choices of the entry node
Rank  == JsonDeserialize(IOEnv.RANK)

VARIABLES g, bad

Nodes == 0..(N - 1)
Choices0 == SetToSortSeq(SuccChoices(N), LAMBDA a, b : IF Len(a) # Len(b) THEN Len(a) < Len(b)
                                                        ELSE IF Len(a) = 0 THEN FALSE
                                                        ELSE IF a[1] # b[1] THEN a[1] < b[1] ELSE (Len(a) = 2 /\ a[2] < b[2]))
Root == "meta_region_0"
H0of(gg) == [n \in {ToString(u) : u \in Nodes} |->
               LET u == CHOOSE u \in Nodes : ToString(u) = n IN
               [k |-> "basic", jt |-> [j \in 1..Len(gg[u]) |-> ToString(gg[u][j])], be |-> <<>>, up |-> Root]]
OrigOf(gg) == [n \in {ToString(u) : u \in Nodes} |-> LET u == CHOOSE u \in Nodes : ToString(u) = n IN [j \in 1..Len(gg[u]) |-> ToString(gg[u][j])]]

\* ---- pipeline drivers ----
Loops(H, l) ==
  LET A == Adj(H, l)
      reach == [u \in DOMAIN A |-> GrowA(A, A[u], A[u], "")]
      scc(u) == {u} \cup {v \in DOMAIN A : v \in reach[u] /\ u \in reach[v]}
  IN {scc(u) : u \in {u \in DOMAIN A : Cardinality(scc(u)) > 1 \/ u \in A[u]}}
MinRank(S) == CHOOSE x \in S : \A y \in S : Rank[x] <= Rank[y]
OrderSets(SS) == SetToSortSeq(SS, LAMBDA a, b : Rank[MinRank(a)] < Rank[MinRank(b)])

RECURSIVE LoopStage(_, _, _), LoopFold(_, _, _, _), RegionFoldL(_, _, _, _)
LoopFold(st, l, loops, j) ==
  IF j > Len(loops) \/ st.fail THEN st
  ELSE LET r == LoopRotate(st.H, st.ng, l, loops[j], Rank) IN
       IF r.fail \/ HasFail(r.H) THEN [H |-> r.H, ng |-> r.ng, fail |-> TRUE]
       ELSE LET x == Extract(r.H, r.ng, l, r.loop, "loop", Rank)
            IN LoopFold([H |-> x.H, ng |-> x.ng, fail |-> ~x.ok], l, loops, j + 1)
RegionFoldL(st, regs, j, fuel) == IF j > Len(regs) \/ st.fail THEN st ELSE RegionFoldL(LoopStage(st, regs[j], fuel), regs, j + 1, fuel)
LoopStage(st, l, fuel) ==
  IF fuel = 0 THEN [st EXCEPT !.fail = TRUE]
  ELSE LET s1 == LoopFold(st, l, OrderSets(Loops(st.H, l)), 1)
           regs == Sorted({n \in Level(s1.H, l) : s1.H[n].k = "region"}, Rank)
       IN IF s1.fail THEN s1 ELSE RegionFoldL(s1, regs, 1, fuel - 1)

RECURSIVE BranchStage(_, _, _), RegionFoldB(_, _, _, _)
RegionFoldB(st, regs, j, fuel) == IF j > Len(regs) \/ st.fail THEN st ELSE RegionFoldB(BranchStage(st, regs[j], fuel), regs, j + 1, fuel)
BranchStage(st, l, fuel) ==
  IF fuel = 0 THEN [st EXCEPT !.fail = TRUE]
  ELSE LET s1 == BranchPass(st.H, st.ng, l, Rank)
           regs == Sorted({n \in Level(s1.H, l) : s1.H[n].k = "region"}, Rank)
       IN IF s1.fail THEN [H |-> s1.H, ng |-> s1.ng, fail |-> TRUE] ELSE RegionFoldB([H |-> s1.H, ng |-> s1.ng, fail |-> FALSE], regs, 1, fuel - 1)

Closed(gg) == LET r == JoinReturns(H0of(gg), Ng0, Root, Sorted(DOMAIN H0of(gg), Rank)) IN [H |-> r.H, ng |-> r.ng, fail |-> FALSE]
Looped(gg) == LoopStage(Closed(gg), Root, 12)
Branched(gg) == BranchStage(Looped(gg), Root, 12)

\* ---- contract layer on the result of every stage ----
St(h) == [H |-> h, root |-> Root, dup |-> <<>>]
CaseOf(gg) == [orig |-> OrigOf(gg), origk |-> [n \in DOMAIN OrigOf(gg) |-> "basic"], origpay |-> [n \in DOMAIN OrigOf(gg) |-> <<>>]]
StageBad(gg, st, nm, final) ==
  IF st.fail \/ HasFail(st.H) THEN {"C02/NeverFails@" \o nm}
  ELSE {"C04/" \o c \o "@" \o nm : c \in FailedWF(St(st.H))}
       \cup {"C05/" \o c \o "@" \o nm : c \in FailedCV(CaseOf(gg), St(st.H), TRUE)}
       \cup {"C06/" \o c \o "@" \o nm : c \in FailedTables(st.H)}
       \cup (IF final THEN {"C03/" \o c : c \in FailedST(CaseOf(gg), St(st.H))} ELSE {})
Verdict(gg) ==
  LET a == Closed(gg)
      b == LoopStage(a, Root, 12)
      c == BranchStage(b, Root, 12)
  IN StageBad(gg, a, "closed", FALSE)
     \cup (IF b.fail THEN StageBad(gg, b, "loops", FALSE)
           ELSE StageBad(gg, b, "loops", FALSE) \cup StageBad(gg, c, "branches", TRUE))

Init == /\ \E h \in [1..(N - 1) -> SuccChoices(N)] :
              /\ g = [u \in Nodes |-> IF u = 0 THEN Choices0[Shard] ELSE h[u]]
              /\ ClosedG(g)
        /\ bad = Verdict(g)
Next == UNCHANGED <<g, bad>>
Holds == bad = {}
=============================================================================
