----------------------------- MODULE RoundTrip -----------------------------
(***************************************************************************)
(* C15: writing a graph to a dictionary / to YAML and reading it back is a *)
(* stuttering step on the abstract state, and a second write reproduces    *)
(* the first.  One recorded case per (behaviour, stage, path):             *)
(*   [H, root, H2, root2, H3, d1, d2, excw, excr, excw2, excr2]             *)
(* H  = projection of the live graph, H2 = projection of the re-read one,   *)
(* d1 / d2 = first / second written dictionary (as JSON values).           *)
(* Dictionary path, stages before the last: used, Hb, Ha, H4, exc4 - the   *)
(* live graph before / after the re-read graph was restructured further,   *)
(* and the projection of d1 read once more after that.                     *)
(***************************************************************************)
EXTENDS Graph, Json, IOUtils

Cases == JsonDeserialize(IOEnv.CASES)

VARIABLES tid, bad

TabSet(b) == IF "tab" \in DOMAIN b THEN {<<b.tab[j][1], b.tab[j][2]>> : j \in 1..Len(b.tab)} ELSE {}
AsgSet(b) == IF "asg" \in DOMAIN b THEN {<<b.asg[j][1], b.asg[j][2]>> : j \in 1..Len(b.asg)} ELSE {}
Fld(b, f) == IF f \in DOMAIN b THEN b[f] ELSE ""
\* the root region's name is not part of the written form: compare nesting modulo the two roots
UpOf(c, b, second) == IF b.up = (IF second THEN c.root2 ELSE c.root) THEN "<root>" ELSE b.up

SameBlocks(c)    == DOMAIN c.H2 = DOMAIN c.H
Common(c)        == DOMAIN c.H \cap DOMAIN c.H2
SameTypes(c)     == \A n \in Common(c) : c.H2[n].k = c.H[n].k
SamePayload(c)   == \A n \in Common(c) : Fld(c.H2[n], "pay") = Fld(c.H[n], "pay") \/ c.H[n].k = "ast"
SameSuccessors(c) == \A n \in Common(c) : c.H2[n].jt = c.H[n].jt          \* same successors in the same order
SameBackEdges(c) == \A n \in Common(c) : c.H2[n].be = c.H[n].be
SameTables(c)    == \A n \in Common(c) : TabSet(c.H2[n]) = TabSet(c.H[n]) /\ Fld(c.H2[n], "var") = Fld(c.H[n], "var")
SameAssignments(c) == \A n \in Common(c) : AsgSet(c.H2[n]) = AsgSet(c.H[n])
SameNesting(c)   == \A n \in Common(c) : UpOf(c, c.H2[n], TRUE) = UpOf(c, c.H[n], FALSE)
SameRegions(c)   == \A n \in Common(c) : c.H[n].k = "region" =>
                       /\ Fld(c.H2[n], "rk") = c.H[n].rk /\ Fld(c.H2[n], "header") = c.H[n].header
                       /\ Fld(c.H2[n], "exiting") = c.H[n].exiting
\* the re-read graph is itself consistent about who contains what (needed for the second write)
RereadParents(c) == \A n \in DOMAIN c.H2 : c.H2[n].k = "region" => (c.H2[n].pp = c.H2[n].up /\ c.H2[n].sr = n)

Verdict(c) ==
  IF c.excw # "" THEN {"WriteRaises"}
  ELSE IF c.excr # "" THEN {"ReadRaises"}
  ELSE {x \in {"SameBlocks", "SameTypes", "SamePayload", "SameSuccessors", "SameBackEdges", "SameTables", "SameAssignments",
               "SameNesting", "SameRegions", "RereadParents"} :
          ~ CASE x = "SameBlocks" -> SameBlocks(c) [] x = "SameTypes" -> SameTypes(c) [] x = "SamePayload" -> SamePayload(c)
              [] x = "SameSuccessors" -> SameSuccessors(c) [] x = "SameBackEdges" -> SameBackEdges(c)
              [] x = "SameTables" -> SameTables(c) [] x = "SameAssignments" -> SameAssignments(c)
              [] x = "SameNesting" -> SameNesting(c) [] x = "SameRegions" -> SameRegions(c)
              [] x = "RereadParents" -> RereadParents(c)}
       \cup (IF c.excw2 # "" THEN {"SecondWriteRaises"} ELSE IF c.d1 # c.d2 THEN {"SecondWriteDiffers"}
             ELSE IF c.excr2 # "" THEN {"SecondReadRaises"} ELSE IF c.H3 # c.H2 THEN {"SecondReadDiffers"} ELSE {})
       \* history write - read - USE the re-read graph (the rest of the pipeline runs on it) - read the same dictionary again:
       \* the dictionary still reads as the graph it was written from, and that graph (Hb before / Ha after the use) has not moved
       \cup (IF "used" \in DOMAIN c /\ c.used
             THEN (IF c.exc4 # "" THEN {"ReadAfterUseRaises"} ELSE IF c.H4 # c.H2 THEN {"DictionaryChangedByUse"} ELSE {})
                  \cup (IF c.Ha # c.Hb THEN {"WrittenGraphChangedByUse"} ELSE {})
             ELSE {})

Init == /\ tid \in 1..Len(Cases)
        /\ bad = Verdict(Cases[tid])
Next == UNCHANGED <<tid, bad>>
Holds == bad = {}
=============================================================================
