----------------------------- MODULE SerialImpl -----------------------------
(***************************************************************************)
(* Impl layer of the serialiser (C15; the read order is a C12 anchor):       *)
(*   DumpOf(H, root)   - SCFGIO.to_dict: per block its type name and typed   *)
(*                       fields, ordered targets, back edges; regions list   *)
(*                       what they contain, header, exiting, parent;         *)
(*   LoadOf(D)         - SCFGIO.from_dict / make_scfg: the outer graph is    *)
(*                       everything no region lists; every graph is rebuilt  *)
(*                       by a breadth-first walk from its head(s) along the  *)
(*                       written edges that does not continue past the       *)
(*                       region's exiting block - a block is a member of a   *)
(*                       region because the walk REACHES it, not because the *)
(*                       region lists it; the walk order (sorted FIFO) is    *)
(*                       the dict order of the rebuilt graph.                 *)
(* D is the written dictionary in canonical form (total records, sets for    *)
(* what the writer sorts):                                                    *)
(*   D : name -> [type, kind, contains, header, exiting, parent, var, tab,   *)
(*                asg, begin, end, edges, backedges]                          *)
(* MODE = "trace": for recorded (H, written dictionary, re-read H2, its dict *)
(*   order): DumpOf(H) = D  and  LoadOf(D) = H2 with the same dict order.    *)
(* MODE = "model": on the hierarchies the pipeline model builds from every   *)
(*   closed CFG (ModelDump cases, every stage): Load . Dump is the identity  *)
(*   and a second Dump reproduces the first - the design-level statement of  *)
(*   C15.                                                                     *)
(***************************************************************************)
EXTENDS Graph, Json, IOUtils

Mode  == IOEnv.MODE
Data  == JsonDeserialize(IOEnv.CASES)
Cases == IF Mode = "trace" THEN Data.cases ELSE Data
Rank  == IF Mode = "trace" THEN Data.rank ELSE JsonDeserialize(IOEnv.RANK)

VARIABLES tid, sid, drift

TypeName(k) == CASE k = "basic" -> "basic" [] k = "bytecode" -> "python_bytecode" [] k = "assign" -> "synth_asign" [] k = "head" -> "synth_head"
                 [] k = "latch" -> "synth_exit_latch" [] k = "exitbranch" -> "synth_exit_branch" [] k = "branch" -> "synth_branch"
                 [] k = "tail" -> "synth_tail" [] k = "exit" -> "synth_exit" [] k = "fill" -> "synth_fill" [] k = "return" -> "synth_return"
                 [] k = "region" -> "region" [] OTHER -> "?"
KindOfType(t) == CASE t = "basic" -> "basic" [] t = "python_bytecode" -> "bytecode" [] t = "synth_asign" -> "assign" [] t = "synth_head" -> "head"
                   [] t = "synth_exit_latch" -> "latch" [] t = "synth_exit_branch" -> "exitbranch" [] t = "synth_branch" -> "branch"
                   [] t = "synth_tail" -> "tail" [] t = "synth_exit" -> "exit" [] t = "synth_fill" -> "fill" [] t = "synth_return" -> "return"
                   [] t = "region" -> "region" [] OTHER -> "?"
Pairs(q) == {<<q[j][1], q[j][2]>> : j \in 1..Len(q)}
F(b, f, dflt) == IF f \in DOMAIN b THEN b[f] ELSE dflt

(******************************* to_dict ***********************************)
TabSetOf(b) == IF "tabset" \in DOMAIN b THEN b.tabset ELSE IF "tab" \in DOMAIN b THEN Pairs(b.tab) ELSE {}
AsgSetOf(b) == IF "asgset" \in DOMAIN b THEN b.asgset ELSE IF "asg" \in DOMAIN b THEN Pairs(b.asg) ELSE {}
DumpOf(H, root) ==
  [n \in DOMAIN H |->
     LET b == H[n] IN
     [type |-> TypeName(b.k),
      kind |-> IF b.k = "region" THEN b.rk ELSE "",
      contains |-> IF b.k = "region" THEN Level(H, n) ELSE {},
      header |-> IF b.k = "region" THEN b.header ELSE "",
      exiting |-> IF b.k = "region" THEN b.exiting ELSE "",
      parent |-> IF b.k = "region" THEN b.pp ELSE "",          \* value.parent_region.name
      var |-> IF b.k \in BranchKinds THEN b.var ELSE "",
      tab |-> IF b.k \in BranchKinds THEN TabSetOf(b) ELSE {},
      asg |-> IF b.k = "assign" THEN AsgSetOf(b) ELSE {},
      begin |-> IF b.k = "bytecode" THEN b.pay[1] ELSE -1,
      end |-> IF b.k = "bytecode" THEN b.pay[2] ELSE -1,
      edges |-> b.jt, backedges |-> b.be]]

(****************************** from_dict **********************************)
Sorted(S) == SetToSortSeq(S, LAMBDA a, b : Rank[a] < Rank[b])
\* the FIFO walk of make_scfg: names in the order they are put into the rebuilt graph
RECURSIVE WalkOrder(_, _, _, _, _)
WalkOrder(D, q, seen, exiting, out) ==
  IF q = <<>> THEN out
  ELSE LET n == Head(q) rest == Tail(q) IN
       IF n \in seen THEN WalkOrder(D, rest, seen, exiting, out)
       ELSE IF n \notin DOMAIN D THEN WalkOrder(D, rest, seen \cup {n}, exiting, Append(out, "!KeyError:" \o n))
       ELSE WalkOrder(D, IF n = exiting THEN rest ELSE rest \o D[n].edges, seen \cup {n}, exiting, Append(out, n))
Outer(D) == DOMAIN D \ UNION {D[n].contains : n \in DOMAIN D}
\* [H, O, ok]: blocks of the level `up` reached from heads, and recursively of every region among them
RECURSIVE LoadLevel(_, _, _, _, _)
LoadLevel(D, heads, exiting, up, fuel) ==
  LET order == WalkOrder(D, Sorted(heads), {}, exiting, <<>>)
      members == SeqSet(order)
      bad == fuel = 0 \/ \E n \in members : n \notin DOMAIN D
  IN IF bad THEN [H |-> <<>>, O |-> <<>>, ok |-> FALSE]
     ELSE
     LET subs == [r \in {n \in members : D[n].type = "region"} |-> LoadLevel(D, {D[r].header}, D[r].exiting, r, fuel - 1)]
         here == [n \in members |->
                    LET d == D[n] k == KindOfType(d.type) IN
                    IF k = "region"
                    THEN [k |-> k, jt |-> d.edges, be |-> d.backedges, up |-> up, rk |-> d.kind, header |-> d.header, exiting |-> d.exiting, pp |-> up, sr |-> n]
                    ELSE IF k \in BranchKinds THEN [k |-> k, jt |-> d.edges, be |-> d.backedges, up |-> up, var |-> d.var, tabset |-> d.tab]
                    ELSE IF k = "assign" THEN [k |-> k, jt |-> d.edges, be |-> d.backedges, up |-> up, asgset |-> d.asg]
                    ELSE IF k = "bytecode" THEN [k |-> k, jt |-> d.edges, be |-> d.backedges, up |-> up, pay |-> <<d.begin, d.end>>]
                    ELSE [k |-> k, jt |-> d.edges, be |-> d.backedges, up |-> up]]
         RECURSIVE Merge(_, _, _)
         Merge(Hc, Oc, R) ==
           IF R = {} THEN [H |-> Hc, O |-> Oc, ok |-> \A r \in DOMAIN subs : subs[r].ok]
           ELSE LET r == CHOOSE x \in R : TRUE
                    s == subs[r]
                IN Merge([n \in DOMAIN Hc \cup DOMAIN s.H |-> IF n \in DOMAIN s.H THEN s.H[n] ELSE Hc[n]],
                         [l \in DOMAIN Oc \cup DOMAIN s.O |-> IF l \in DOMAIN s.O THEN s.O[l] ELSE Oc[l]], R \ {r})
     IN Merge(here, (up :> order), DOMAIN subs)
LoadOf(D, root) == LoadLevel(D, Outer(D), "", root, Cardinality(DOMAIN D) + 2)

(******************************* comparisons *******************************)
UpMod(b, r1, r2) == IF b.up = r1 \/ b.up = r2 THEN "<root>" ELSE b.up
PpMod(b, r1, r2) == LET p == F(b, "pp", "") IN IF p = r1 \/ p = r2 THEN "<root>" ELSE p
SameBlock(a, b, r1, r2) ==
  /\ a.k = b.k /\ a.jt = b.jt /\ a.be = b.be /\ UpMod(a, r1, r2) = UpMod(b, r1, r2)
  /\ TabSetOf(a) = TabSetOf(b) /\ AsgSetOf(a) = AsgSetOf(b) /\ F(a, "var", "") = F(b, "var", "")
  /\ F(a, "rk", "") = F(b, "rk", "") /\ F(a, "header", "") = F(b, "header", "") /\ F(a, "exiting", "") = F(b, "exiting", "")
  /\ PpMod(a, r1, r2) = PpMod(b, r1, r2) /\ F(a, "pay", <<>>) = F(b, "pay", <<>>)
SameH(A, B, r1, r2) == DOMAIN A = DOMAIN B /\ \A n \in DOMAIN A : SameBlock(A[n], B[n], r1, r2)
\* the written dictionary as the harness canonicalised it (lists -> sets where the writer sorts)
CanonD(d) == [n \in DOMAIN d |-> [type |-> d[n].type, kind |-> d[n].kind, contains |-> SeqSet(d[n].contains), header |-> d[n].header,
                                   exiting |-> d[n].exiting, parent |-> d[n].parent, var |-> d[n].var, tab |-> Pairs(d[n].tab), asg |-> Pairs(d[n].asg),
                                   begin |-> d[n].begin, end |-> d[n].end, edges |-> d[n].edges, backedges |-> d[n].backedges]]

\* trace case: [root, H, D (canonical written dictionary), root2, H2, ord2]
TraceVerdict(c) ==
  LET D == CanonD(c.D)
      mine == DumpOf(c.H, c.root)
      ld == LoadOf(D, c.root2)
  IN (IF mine = D THEN {} ELSE {"dump"})
     \cup (IF ~ld.ok THEN {"load:model-fails"}
           ELSE (IF SameH(ld.H, c.H2, c.root2, c.root2) THEN {} ELSE {"load:blocks"})
                \cup (IF DOMAIN ld.O = DOMAIN c.ord2 /\ \A l \in DOMAIN ld.O : ld.O[l] = c.ord2[l] THEN {} ELSE {"load:dict-order"}))
\* model case (ModelDump): [root, stages : Seq([H])]
ModelVerdict(c, i) ==
  LET H == c.stages[i].H
      D == DumpOf(H, c.root)
      ld == LoadOf(D, c.root)
  IN IF ~ld.ok THEN {"design:load-fails"}
     ELSE (IF SameH(ld.H, H, c.root, c.root) THEN {} ELSE {"design:round-trip-differs"})
          \cup (IF DumpOf(ld.H, c.root) = D THEN {} ELSE {"design:second-dump-differs"})

Init == /\ tid \in 1..Len(Cases)
        /\ sid \in (IF Mode = "trace" THEN {1} ELSE 1..Len(Cases[tid].stages))
        /\ drift = IF Mode = "trace" THEN TraceVerdict(Cases[tid]) ELSE ModelVerdict(Cases[tid], sid)
Next == UNCHANGED <<tid, sid, drift>>
NoDrift == drift = {}
=============================================================================
