------------------------------ MODULE Skeleton ------------------------------
(***************************************************************************)
(* C07 (a) / C10: ALL decision paths, skeleton level, as a native TLC      *)
(* search.                                                                 *)
(*                                                                         *)
(* The flat graph built from the source (AST2SCFG, before restructuring)   *)
(* and the function regenerated from the restructured graph are both       *)
(* abstracted to their control shape: original statements, tests and       *)
(* returned expressions are opaque identities (the generator re-uses the   *)
(* blocks' own AST nodes), everything synthetic (control-variable          *)
(* assignments, `if var in (...)` cascades, flag loops, the return         *)
(* variable) keeps its meaning.  One TLC state is a state of the PRODUCT   *)
(*   position in the flat graph  x  continuation of the generated code     *)
(*   x  valuation of the control variables;                                *)
(* `Next` advances both sides to their next VISIBLE action (an original    *)
(* statement, an original test, a return) and requires the two actions to  *)
(* be the same; at a test both sides take the same, arbitrary, outcome.    *)
(* The product is finite and explored to fix-point: paths of unbounded     *)
(* length, including those no input exercises.                             *)
(*                                                                         *)
(*   Cases[i] = [flat : block -> [units, test, jt], code : generated code] *)
(*   code item kinds: stmt(id) ret(id) retval(id) return asg(var,val)      *)
(*   setbool(var,val) setnot(var,src) if(test,body,orelse) while(var,body) *)
(*   test kinds: opaque(id) | in(var, vals)                                *)
(***************************************************************************)
EXTENDS CodegenImpl, Json, IOUtils

Cases == JsonDeserialize(IOEnv.CASES)
\* MODE = "real": the code is the skeleton extracted from the real SCFG2AST output.
\* MODE = "impl": the code is Code(H) - the transcription of the code generator (CodegenImpl.tla) applied to the recorded
\*                restructured hierarchy; `drift` says whether it differs from the real output (conformance of the Impl layer).
Mode == IOEnv.MODE

VARIABLES tid, blk, idx, stk, env, rv, bad, drift
vars == <<tid, blk, idx, stk, env, rv, bad, drift>>

Generated(t) == Code(Cases[t].H, Cases[t].root, Cases[t].flat)
CodeOf(t) == IF Mode = "impl" THEN Generated(t).code ELSE Cases[t].code

Flat == Cases[tid].flat
Fuel == 400

SetEnv(e, v, x) == [y \in DOMAIN e \cup {v} |-> IF y = v THEN x ELSE e[y]]
Push(s, code) == Append(s, [code |-> code, pc |-> 1, loop |-> ""])
PushLoop(s, code, var) == Append(s, [code |-> code, pc |-> 1, loop |-> var])
Top(s) == s[Len(s)]
Pop(s) == SubSeq(s, 1, Len(s) - 1)
Bump(s) == [s EXCEPT ![Len(s)].pc = @ + 1]

(******************************* flat graph side **************************)
\* next visible action from <<block, index>>:  <<event, block, index>>; event = <<"S", id>> | <<"R", id>> | <<"T", id>> | <<"END">> | <<"BAD", why>>
RECURSIVE FlatNext(_, _, _)
FlatNext(b, i, fuel) ==
  IF fuel = 0 THEN <<<<"BAD", "flat-graph-silent-cycle">>, b, i>>
  ELSE IF b \notin DOMAIN Flat THEN <<<<"BAD", "flat-dangling-target">>, b, i>>
  ELSE LET B == Flat[b] IN
       IF i <= Len(B.units) THEN <<<<B.units[i][1], B.units[i][2]>>, b, i + 1>>
       ELSE IF Len(B.jt) = 2 THEN <<<<"T", B.test>>, b, i>>
       ELSE IF Len(B.jt) = 1 THEN FlatNext(B.jt[1], 1, fuel - 1)
       ELSE <<<<"END">>, b, i>>

(****************************** generated code side ***********************)
\* run silent items until a visible one:  <<event, stack, env, rv>>
RECURSIVE CodeNext(_, _, _, _)
CodeNext(s, e, r, fuel) ==
  IF fuel = 0 THEN <<<<"BAD", "generated-code-silent-cycle">>, s, e, r>>
  ELSE IF s = <<>> THEN <<<<"END">>, s, e, r>>
  ELSE LET f == Top(s) IN
       IF f.pc > Len(f.code) THEN
          (IF f.loop # "" THEN
              (IF f.loop \notin DOMAIN e THEN <<<<"BAD", "loop-flag-unset">>, s, e, r>>
               ELSE IF e[f.loop] THEN CodeNext([s EXCEPT ![Len(s)].pc = 1], e, r, fuel - 1)
               ELSE CodeNext(Pop(s), e, r, fuel - 1))
           ELSE CodeNext(Pop(s), e, r, fuel - 1))
       ELSE LET it == f.code[f.pc] s1 == Bump(s) IN
            CASE it.k = "stmt" -> <<<<"S", it.id>>, s1, e, r>>
              [] it.k = "ret" -> <<<<"R", it.id>>, <<>>, e, r>>                         \* an original return statement: the function ends
              [] it.k = "retval" -> <<<<"R", it.id>>, s1, e, TRUE>>                     \* value stored; must reach `return` silently
              [] it.k = "return" -> IF r THEN <<<<"END">>, <<>>, e, r>> ELSE <<<<"BAD", "returns-unset-return-variable">>, s, e, r>>
              [] it.k = "asg" -> CodeNext(s1, SetEnv(e, it.var, it.val), r, fuel - 1)
              [] it.k = "setbool" -> CodeNext(s1, SetEnv(e, it.var, it.val), r, fuel - 1)
              [] it.k = "setnot" -> IF it.src \notin DOMAIN e THEN <<<<"BAD", "control-variable-unset">>, s, e, r>>
                                    ELSE CodeNext(s1, SetEnv(e, it.var, e[it.src] = 0), r, fuel - 1)
              [] it.k = "while" -> IF it.var \notin DOMAIN e THEN <<<<"BAD", "loop-flag-unset">>, s, e, r>>
                                   ELSE IF e[it.var] THEN CodeNext(PushLoop(s1, it.body, it.var), e, r, fuel - 1)
                                   ELSE CodeNext(s1, e, r, fuel - 1)
              [] it.k = "if" ->
                   IF it.test.k = "opaque" THEN <<<<"T", it.test.id>>, s, e, r>>          \* decided by the step
                   ELSE IF it.test.var \notin DOMAIN e THEN <<<<"BAD", "control-variable-unset">>, s, e, r>>
                   ELSE LET hit == \E j \in 1..Len(it.test.vals) : it.test.vals[j] = e[it.test.var] IN
                        CodeNext(Push(s1, IF hit THEN it.body ELSE it.orelse), e, r, fuel - 1)
              [] OTHER -> <<<<"BAD", "unknown-item">>, s, e, r>>
\* take the branch d of the opaque `if` on top
TakeBranch(s, d) == LET f == Top(s) it == f.code[f.pc] IN Push(Bump(s), IF d THEN it.body ELSE it.orelse)

EmptyEnv == [x \in {} |-> 0]
Init == /\ tid \in 1..Len(Cases)
        /\ blk = "0" /\ idx = 1
        /\ env = EmptyEnv /\ rv = FALSE
        /\ IF Mode = "impl"
           THEN LET gen == Generated(tid) IN          \* evaluated once per case
                /\ stk = Push(<<>>, gen.code)
                /\ bad = IF gen.fail THEN "refused" ELSE "ok"
                /\ drift = IF Cases[tid].refused THEN ~gen.fail ELSE (gen.fail \/ gen.code # Cases[tid].code)
           ELSE /\ stk = Push(<<>>, Cases[tid].code)
                /\ bad = "ok"
                /\ drift = FALSE

Stuck(why) == bad' = why /\ UNCHANGED <<tid, blk, idx, stk, env, rv, drift>>
Next ==
  /\ bad = "ok"
  /\ LET fa == FlatNext(blk, idx, Fuel)
         ca == CodeNext(stk, env, rv, Fuel)
         fe == fa[1] ce == ca[1]
     IN IF fe[1] = "BAD" THEN Stuck(fe[2])
        ELSE IF ce[1] = "BAD" THEN Stuck(ce[2])
        ELSE IF fe # ce THEN Stuck("different-action")
        ELSE IF fe[1] = "END" THEN UNCHANGED vars                                  \* both ended
        ELSE IF fe[1] = "T" THEN
             \E d \in BOOLEAN :
                /\ blk' = Flat[fa[2]].jt[IF d THEN 1 ELSE 2] /\ idx' = 1
                /\ stk' = TakeBranch(ca[2], d) /\ env' = ca[3] /\ rv' = ca[4]
                /\ UNCHANGED <<tid, bad, drift>>
        ELSE IF fe[1] = "R" THEN
             \* the flat graph stops here; the generated code must reach the end without another visible action
             LET rest == CodeNext(ca[2], ca[3], ca[4], Fuel) IN
             IF rest[1][1] = "END" THEN /\ blk' = fa[2] /\ idx' = Len(Flat[fa[2]].units) + 1000 /\ stk' = <<>> /\ env' = ca[3] /\ rv' = ca[4]
                                        /\ UNCHANGED <<tid, bad, drift>>
             ELSE Stuck(IF rest[1][1] = "BAD" THEN rest[1][2] ELSE "runs-on-after-return")
        ELSE /\ blk' = fa[2] /\ idx' = fa[3] /\ stk' = ca[2] /\ env' = ca[3] /\ rv' = ca[4] /\ UNCHANGED <<tid, bad, drift>>
SamePaths == bad \in {"ok", "refused"}
NoDrift == ~drift
\* what a counterexample prints (the continuation stack and the valuation can be large)
Small == [tid |-> tid, blk |-> blk, bad |-> bad, drift |-> drift]
=============================================================================
