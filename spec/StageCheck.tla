----------------------------- MODULE StageCheck -----------------------------
(***************************************************************************)
(* E2-(i): evaluate the contract predicates of Props on every recorded     *)
(* stage state of every recorded behaviour.  One TLC initial state per     *)
(* (behaviour, stage); `bad` is the set of failed clauses, so one          *)
(* invariant names everything that broke.                                  *)
(*   CASES  : JSON file, array of behaviours                               *)
(*   WHICH  : which family of clauses to evaluate (C03 | C04 | C05 | C06 | C16)  *)
(***************************************************************************)
EXTENDS Props, Json, IOUtils

Cases == JsonDeserialize(IOEnv.CASES)
Which == IOEnv.WHICH

VARIABLES tid, sid, bad

StageOf(t, i) == Cases[t].stages[i]
StateOf(t, i) == [H |-> StageOf(t, i).H, root |-> Cases[t].root, dup |-> StageOf(t, i).dup]
CaseOf(t) == [orig |-> Cases[t].orig, origk |-> Cases[t].origk, origpay |-> Cases[t].origpay]

Verdict(t, i) ==
  LET s == StateOf(t, i)
      nm == StageOf(t, i).name
  IN IF Which = "C04" THEN FailedWF(s) \cup (IF "bp" \in DOMAIN StageOf(t, i) /\ ~WfBackPointers(StageOf(t, i).bp, s) THEN {"BackPointer"} ELSE {})
     ELSE IF Which = "C05" THEN FailedCV(CaseOf(t), s, nm # "input")
     ELSE IF Which = "C06" THEN FailedTables(s.H)
     ELSE IF Which = "C16" THEN FailedViews(StageOf(t, i).hook, s)
     ELSE IF Which = "C17" THEN FailedDrawing(StageOf(t, i).hook.scfg, s)
                                \cup (IF "bf" \in DOMAIN StageOf(t, i).hook THEN {"ByteFlowRenderer/" \o c : c \in FailedDrawing(StageOf(t, i).hook.bf, s)} ELSE {})
     ELSE IF Which = "C03" THEN (IF nm = "branches" THEN FailedST(CaseOf(t), s) ELSE {})
     ELSE {"unknown-family"}

Init == /\ tid \in 1..Len(Cases)
        /\ sid \in 1..Len(Cases[tid].stages)
        /\ bad = Verdict(tid, sid)
Next == UNCHANGED <<tid, sid, bad>>
Holds == bad = {}
=============================================================================
