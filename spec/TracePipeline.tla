--------------------------- MODULE TracePipeline ---------------------------
(***************************************************************************)
(* Conformance of the real pipeline with Pipeline.tla, whole runs at once:  *)
(* for every recorded behaviour (input graph, its dict order, the generator *)
(* counters) TLC computes RunClosed / RunLoops / RunBranches from the input *)
(* ALONE and compares the result with the state recorded from the real      *)
(* code after each stage: every block record, the dict order of every       *)
(* level, the generator counters - names included.  Nothing is bound from   *)
(* the log.  A difference is DRIFT (the specification no longer describes   *)
(* the code), never a verdict.                                               *)
(***************************************************************************)
EXTENDS Pipeline, Json, IOUtils

Data  == JsonDeserialize(IOEnv.CASES)      \* [rank, cases]
Cases == Data.cases                        \* [root, stages : Seq([name, H, ord, ng])]  - "input" first, then the stages the code completed
Rank  == Data.rank

VARIABLES tid, drift

NgOf(rec) == [k \in NgKinds |-> IF k \in DOMAIN rec THEN rec[k] ELSE 0]
TabOf(b) == IF "tab" \in DOMAIN b THEN b.tab ELSE <<>>
AsgOf(b) == IF "asg" \in DOMAIN b THEN b.asg ELSE <<>>
F(b, f) == IF f \in DOMAIN b THEN b[f] ELSE ""
\* everything the projection records, dict order of tables and assignments included
SameBlock(a, b) == /\ a.k = b.k /\ a.jt = b.jt /\ a.be = b.be /\ a.up = b.up
                   /\ TabOf(a) = TabOf(b) /\ AsgOf(a) = AsgOf(b) /\ F(a, "var") = F(b, "var")
                   /\ F(a, "rk") = F(b, "rk") /\ F(a, "header") = F(b, "header") /\ F(a, "exiting") = F(b, "exiting")
                   /\ F(a, "pp") = F(b, "pp") /\ F(a, "sr") = F(b, "sr")
DiffStage(st, rec, nm) ==
  (IF DOMAIN st.H # DOMAIN rec.H THEN {nm \o ":names"} ELSE
     IF \A n \in DOMAIN st.H : SameBlock(st.H[n], rec.H[n]) THEN {} ELSE {nm \o ":blocks"})
  \cup (IF DOMAIN st.O = DOMAIN rec.ord /\ \A l \in DOMAIN st.O : st.O[l] = rec.ord[l] THEN {} ELSE {nm \o ":dict-order"})
  \cup (IF \A k \in NgKinds : st.ng[k] = NgOf(rec.ng)[k] THEN {} ELSE {nm \o ":counters"})

Verdict(c) ==
  LET in == c.stages[1]
      init == in.H
      order == in.ord[c.root]
      ng0 == NgOf(in.ng)
      a == RunClosed(init, order, c.root, ng0)
      b == LoopsFrom(a, c.root, Rank)
      d == BranchesFrom(b, c.root, Rank)
      has(s) == \E j \in 1..Len(c.stages) : c.stages[j].name = s
      rec(s) == c.stages[CHOOSE j \in 1..Len(c.stages) : c.stages[j].name = s]
  IN (IF has("closed") THEN DiffStage(a, rec("closed"), "closed") ELSE {"closed:code-failed"})
     \cup (IF has("loops") THEN (IF b.fail THEN {"loops:model-fails"} ELSE DiffStage(b, rec("loops"), "loops"))
           ELSE IF has("closed") /\ ~b.fail THEN {"loops:code-failed"} ELSE {})
     \cup (IF has("branches") THEN (IF d.fail THEN {"branches:model-fails"} ELSE DiffStage(d, rec("branches"), "branches"))
           ELSE IF has("loops") /\ ~d.fail THEN {"branches:code-failed"} ELSE {})

Init == /\ tid \in 1..Len(Cases)
        /\ drift = Verdict(Cases[tid])
Next == UNCHANGED <<tid, drift>>
NoDrift == drift = {}
=============================================================================
