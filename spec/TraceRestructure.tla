-------------------------- MODULE TraceRestructure --------------------------
(***************************************************************************)
(* E2 for the restructuring pipeline: trace validation of recorded         *)
(* behaviours of the real code.  One TLC behaviour per recorded behaviour; *)
(* each step consumes one recorded event and applies its recorded delta to *)
(* the hierarchy H.                                                        *)
(*                                                                         *)
(* (i)  Contract clauses are evaluated on the state after EVERY primitive  *)
(*      (not only at stage boundaries), so the first operation that breaks *)
(*      a property is named: TablesAgree (C06) and the consistency clauses *)
(*      of WellFormed that must hold between primitives (C04).             *)
(* (ii) Conformance: the recorded post-state of each primitive must be the *)
(*      Impl transcription applied to the pre-state with the logged        *)
(*      arguments (driver choices - which loop, which region - are bound   *)
(*      from the log).  Composite operations push the pre-state at their   *)
(*      begin event and are compared at their end event.  A disagreement   *)
(*      is DRIFT: it never makes a property verdict, it says that the      *)
(*      specification no longer describes the code.                        *)
(***************************************************************************)
EXTENDS Impl, Props, Json, IOUtils

Data  == JsonDeserialize(IOEnv.CASES)      \* [rank, cases]
Cases == Data.cases
Rank  == Data.rank
Which == IOEnv.WHICH                       \* "drift" | "C04" | "C06" | "all"

VARIABLES tid, i, H, ng, stack, bad, drift
vars == <<tid, i, H, ng, stack, bad, drift>>

NgOf(rec) == [k \in NgKinds |-> IF k \in DOMAIN rec THEN rec[k] ELSE 0]
ApplyDelta(h, ev) == [n \in (DOMAIN h \ SeqSet(ev.del)) \cup DOMAIN ev.put |-> IF n \in DOMAIN ev.put THEN ev.put[n] ELSE h[n]]

\* comparison of a specification state with a recorded one: everything except dictionary order and the bookkeeping fields pp / sr
TabSetOf(b) == IF "tab" \in DOMAIN b THEN {<<b.tab[j][1], b.tab[j][2]>> : j \in 1..Len(b.tab)} ELSE {}
AsgSetOf(b) == IF "asg" \in DOMAIN b THEN {<<b.asg[j][1], b.asg[j][2]>> : j \in 1..Len(b.asg)} ELSE {}
F(b, f) == IF f \in DOMAIN b THEN b[f] ELSE ""
SameBlock(a, b) == /\ a.k = b.k /\ a.jt = b.jt /\ a.be = b.be /\ a.up = b.up
                   /\ TabSetOf(a) = TabSetOf(b) /\ AsgSetOf(a) = AsgSetOf(b) /\ F(a, "var") = F(b, "var")
                   /\ F(a, "rk") = F(b, "rk") /\ F(a, "header") = F(b, "header") /\ F(a, "exiting") = F(b, "exiting")
Differing(S, R) == {n \in DOMAIN S \cup DOMAIN R : n \notin DOMAIN S \/ n \notin DOMAIN R \/ ~SameBlock(S[n], R[n])}
SameNg(a, b) == \A k \in NgKinds : a[k] = b[k]

\* contract clauses evaluated after every primitive
PerPrimitive(h, root) ==
  LET s == [H |-> h, root |-> root, dup |-> <<>>] IN
  (IF Which \in {"C06", "all"} THEN {"C06/" \o c : c \in FailedTables(h)} ELSE {})
  \cup (IF Which \in {"C04", "all"}
        THEN {"C04/" \o c : c \in {x \in {"BackInJt", "CopiesAgree", "ChainAgree", "HeaderInside", "UpValid"} :
                 ~ CASE x = "BackInJt" -> WfBackInJt(s) [] x = "CopiesAgree" -> WfCopiesAgree(s) [] x = "ChainAgree" -> WfChainAgree(s)
                     [] x = "HeaderInside" -> WfUpValid(s) => WfHeaderInside(s) [] x = "UpValid" -> WfUpValid(s)}}
        ELSE {})

\* the Impl transcription of one recorded operation applied to a pre-state  -> [H, ng, fail]
ImplOf(ev, h, g, order) ==
  LET a == ev.args l == ev.lvl IN
  CASE ev.op = "insert_block" -> [H |-> InsertBlock(h, l, a.new, a.P, a.S, a.ty), ng |-> g, fail |-> FALSE]
    [] ev.op = "insert_ctl" -> LET r == InsertCtl(h, g, l, a.new, a.P, a.S, Rank) IN [H |-> r.H, ng |-> r.ng, fail |-> FALSE]
    [] ev.op = "join_returns" -> LET r == JoinReturns(h, g, l, order) IN [H |-> r.H, ng |-> r.ng, fail |-> FALSE]
    [] ev.op = "join_tails_exits" -> LET r == JoinTailsExits(h, g, l, a.T, a.X) IN [H |-> r.H, ng |-> r.ng, fail |-> r.fail]
    [] ev.op = "loop_rotate" -> LET r == LoopRotate(h, g, l, SeqSet(a.loop), Rank) IN [H |-> r.H, ng |-> r.ng, fail |-> r.fail]
    [] ev.op = "extract" -> LET r == Extract(h, g, l, SeqSet(a.blocks), a.kind, Rank) IN [H |-> r.H, ng |-> r.ng, fail |-> ~r.ok]
    [] ev.op = "branch_pass" -> BranchPass(h, g, l, Rank)
    [] OTHER -> [H |-> h, ng |-> g, fail |-> FALSE]
Modelled == {"insert_block", "insert_ctl", "join_returns", "join_tails_exits", "loop_rotate", "extract", "branch_pass"}
\* the name generator hands names to callers: in the code the caller draws the name of the inserted block before the call
\* (so for insert_block / insert_ctl the counters of the pre-state already include it)

Conforms(ev, pre, preng, post, postng, order) ==
  IF ev.op \notin Modelled THEN TRUE
  ELSE LET r == ImplOf(ev, pre, preng, order) IN
       IF ev.exc # "" THEN r.fail \/ HasFail(r.H)
       ELSE /\ ~r.fail /\ ~HasFail(r.H) /\ Differing(r.H, post) = {}
            /\ CASE ev.op = "insert_block" -> TRUE                 \* the caller drew the name of the new block before the call
                  [] ev.op = "insert_ctl" -> \A k \in {"control", "synth_asign"} : r.ng[k] = postng[k]
                  [] OTHER -> SameNg(r.ng, postng)

Init == /\ tid \in 1..Len(Cases)
        /\ i = 0
        /\ H = Cases[tid].init
        /\ ng = NgOf(Cases[tid].ng0)
        /\ stack = <<>>
        /\ bad = {}
        /\ drift = {}

Step ==
  /\ i < Len(Cases[tid].events)
  /\ LET ev == Cases[tid].events[i + 1]
         H2 == ApplyDelta(H, ev)
         ng2 == NgOf(ev.ng)
         order == Cases[tid].order
         checkDrift == Which \in {"drift", "all"}
     IN /\ H' = H2
        /\ ng' = ng2
        /\ i' = i + 1
        /\ tid' = tid
        /\ bad' = IF ev.ph = "b" \/ ev.op \in {"name", "stage"} THEN {} ELSE PerPrimitive(H2, Cases[tid].root)
        /\ IF ev.ph = "b"
           THEN stack' = Append(stack, [H |-> H, ng |-> ng]) /\ drift' = {}
           ELSE IF ev.ph = "e"
           THEN /\ stack' = SubSeq(stack, 1, Len(stack) - 1)
                /\ drift' = IF checkDrift /\ Len(stack) > 0 /\ ~Conforms(ev, stack[Len(stack)].H, stack[Len(stack)].ng, H2, ng2, order)
                            THEN {ev.op} ELSE {}
           ELSE /\ stack' = stack
                /\ drift' = IF checkDrift /\ ~Conforms(ev, H, ng, H2, ng2, order) THEN {ev.op} ELSE {}
Next == Step
Holds == bad = {}
NoDrift == drift = {}
Small == [tid |-> tid, i |-> i, bad |-> bad, drift |-> drift]
=============================================================================
