---------------------------- MODULE Unsupported ----------------------------
(***************************************************************************)
(* C11: Outcome(program) = IF HasUnsupported(program) THEN "refused" ELSE   *)
(* "graph".                                                                  *)
(*                                                                           *)
(* The domain is a TLA+ set: a PROGRAM is identified by                      *)
(*   - the kind of its one unsupported statement (every ast.stmt subclass   *)
(*     of the running interpreter outside the supported set: the only       *)
(*     constant the harness supplies),                                       *)
(*   - the POSITION of that statement: a path of steps, outermost first.    *)
(*     Step 1 is the function's own suite, every further step enters one    *)
(*     suite of a compound statement (ctx).  A step also says what stands   *)
(*     BEFORE the item in its suite - nothing, a simple statement, an `if`, *)
(*     a loop, each optionally preceded by a terminator (return / break /   *)
(*     continue, i.e. the item is dead code) - and what stands AFTER it,    *)
(*   - the FORM in which the program is handed to the library (source text, *)
(*     list of AST nodes, function object).                                  *)
(* Positions(D) is every valid path with at most D compound contexts.  The   *)
(* harness builds the programs, calls AST2SCFG and records the outcome;     *)
(* TLC checks every outcome and CERTIFIES that the recorded cases are        *)
(* exactly Kinds \X Positions(D) \X Forms (plus named extra templates,       *)
(* control programs and non-function inputs).                                *)
(***************************************************************************)
EXTENDS Naturals, Sequences, FiniteSets, TLC, Json, IOUtils

Data  == JsonDeserialize(IOEnv.CASES)     \* [kinds, depth, calldepth, cases]
Cases == Data.cases                       \* grid case: [kind, path, out : form -> outcome];  extra case: [kind, pos, form, unsupported, outcome]
Depth == Data.depth                       \* compound contexts around the statement, source-text and AST-list forms
CallDepth == Data.calldepth               \* the same for the function-object form

VARIABLES tid, bad
SeqSet(q) == {q[j] : j \in 1..Len(q)}

Ctx    == {"if", "else", "elif", "while", "whileelse", "for", "forelse",
           "if0", "else1", "while0"}       \* suites that a constant test makes dead: `if 0:` body, else of `if 1:`, `while 0:` body
LoopBodies == {"while", "for", "while0"}
Terms  == {"-", "ret", "brk", "cnt"}
Before == {"none", "simple", "if", "loop"}
After  == {"none", "simple"}
StepsOf(C) == [ctx : C, t : Terms, p : Before, post : After]
FnSteps  == StepsOf({"fn"})
\* the depth-2 shards of the thorough tier use a slimmer alphabet below the function level (the product would have 1.6 million paths per kind)
Slim == "slim" \in DOMAIN Data /\ Data.slim
CtxSteps == IF Slim THEN [ctx : Ctx, t : Terms, p : {"none", "if"}, post : {"none"}] ELSE StepsOf(Ctx)
\* break / continue need an enclosing loop BODY (a loop's else clause belongs to the next loop out)
InLoop(path, j) == \E i \in 2..j : path[i].ctx \in LoopBodies
Valid(path) == \A j \in 1..Len(path) : path[j].t \in {"brk", "cnt"} => InLoop(path, j)
RECURSIVE Paths(_)
Paths(d) == IF d = 0 THEN {<<s>> : s \in FnSteps}
            ELSE {Append(p, s) : p \in {q \in Paths(d - 1) : Len(q) = d}, s \in CtxSteps} \cup Paths(d - 1)
Positions(d) == {p \in Paths(d) : Valid(p)}
\* the name under which a position is recorded: "fn:-:none:none/while:brk:if:simple"
StepStr(s) == s.ctx \o ":" \o s.t \o ":" \o s.p \o ":" \o s.post
RECURSIVE PathStrF(_, _)
PathStrF(p, j) == IF j = Len(p) THEN StepStr(p[j]) ELSE StepStr(p[j]) \o "/" \o PathStrF(p, j + 1)
PosNames(d) == {PathStrF(p, 1) : p \in Positions(d)}

IsGrid(c) == "path" \in DOMAIN c
\* "n/a": the harness could not hand the program over in this form (a function object needs source that compiles)
Wrong(form, outcome) == ~(outcome = "refused" \/ (outcome = "n/a" /\ form = "callable"))
Clause(outcome) == IF outcome = "graph" THEN "Mistranslated" ELSE "NotRefusedExplicitly"
Verdict(c) ==
  IF IsGrid(c) THEN {Clause(c.out[f]) \o "@" \o f : f \in {x \in DOMAIN c.out : Wrong(x, c.out[x])}}
  ELSE IF c.unsupported /\ Wrong(c.form, c.outcome) THEN {Clause(c.outcome) \o "@" \o c.form}
  ELSE {}       \* refusing a supported program is not C11's business (C07 allows an explicit refusal)
Product == (SeqSet(Data.kinds) \X PosNames(Depth) \X {"str", "ast"})
           \cup (SeqSet(Data.kinds) \X PosNames(CallDepth) \X {"callable"})
Covered == UNION {{<<Cases[i].kind, Cases[i].path, f>> : f \in DOMAIN Cases[i].out} : i \in {j \in 1..Len(Cases) : IsGrid(Cases[j])}}
Certify == IF Data.kinds = <<>> \/ Covered = Product THEN {} ELSE {"MACHINERY-product-not-covered"}

Init == /\ tid \in 0..Len(Cases)
        /\ bad = IF tid = 0 THEN Certify ELSE Verdict(Cases[tid])
Next == UNCHANGED <<tid, bad>>
Holds == bad = {}
=============================================================================
