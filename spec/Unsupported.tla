---------------------------- MODULE Unsupported ----------------------------
(***************************************************************************)
(* C11: Outcome(program) = IF HasUnsupported(program) THEN "refused" ELSE   *)
(* "graph".  The product  statement kind x structural position  is a TLA+   *)
(* set built from two constants the harness reads from the running          *)
(* interpreter (every ast.stmt subclass outside the supported set; the     *)
(* position templates); TLC checks every recorded outcome and that the     *)
(* recorded cases are exactly that product (plus the control programs and   *)
(* the non-function inputs).                                                *)
(***************************************************************************)
EXTENDS Naturals, Sequences, FiniteSets, TLC, Json, IOUtils

Data  == JsonDeserialize(IOEnv.CASES)     \* [kinds, positions, cases]
Cases == Data.cases                       \* [kind, pos, unsupported, outcome, exc]

VARIABLES tid, bad
SeqSet(q) == {q[j] : j \in 1..Len(q)}

Expected(c) == IF c.unsupported THEN "refused" ELSE "graph"
Verdict(c) == IF c.outcome = Expected(c) THEN {}
              ELSE IF c.unsupported THEN {IF c.outcome = "graph" THEN "Mistranslated" ELSE "NotRefusedExplicitly"}
              ELSE {"SupportedProgramRejected"}
Product == SeqSet(Data.kinds) \X SeqSet(Data.positions)
Covered == {<<Cases[i].kind, Cases[i].pos>> : i \in {j \in 1..Len(Cases) : Cases[j].unsupported /\ Cases[j].pos # "input"}}
Certify == IF Covered = Product THEN {} ELSE {"MACHINERY-product-not-covered"}

Init == /\ tid \in 0..Len(Cases)
        /\ bad = IF tid = 0 THEN Certify ELSE Verdict(Cases[tid])
Next == UNCHANGED <<tid, bad>>
Holds == bad = {}
=============================================================================
