------------------------------ MODULE ViewImpl ------------------------------
(***************************************************************************)
(* Impl layer of the two iterators (C16):                                   *)
(*   IterOrder(H, l)  - SCFG.__iter__: breadth-first over a level from its  *)
(*                      head, a region followed at once by everything its   *)
(*                      own sub-graph yields, continuing at the REGION's    *)
(*                      jump targets;                                        *)
(*   Impl!ViewOrder   - ConcealedRegionView.region_view_iterator: breadth-  *)
(*                      first, a region continued at the targets of its     *)
(*                      exiting block.                                       *)
(* On every recorded stage state (same files as StageCheck):                *)
(*   design  : the transcriptions satisfy the contract (Props VW and IT clauses), *)
(*   conform : the order recorded from the real iterators equals the        *)
(*             transcription's order, element by element.                   *)
(* Both are DRIFT-level facts; verdicts come from the contract evaluated on *)
(* the recorded sequences (StageCheck / EditViews).                          *)
(***************************************************************************)
EXTENDS Impl, Props, Json, IOUtils

Cases == JsonDeserialize(IOEnv.CASES)
VARIABLES tid, sid, drift

RECURSIVE IterBFS(_, _, _, _, _, _)
IterOrder(H, l, fuel) == IF HeadOf(H, l) = "?" \/ fuel = 0 THEN <<>> ELSE IterBFS(H, l, <<HeadOf(H, l)>>, {}, <<>>, fuel)
IterBFS(H, l, q, seen, out, fuel) ==
  IF q = <<>> THEN out
  ELSE LET n == Head(q) rest == Tail(q) IN
       IF n \in seen THEN IterBFS(H, l, rest, seen, out, fuel)
       ELSE IF n \notin Level(H, l) THEN IterBFS(H, l, rest, seen \cup {n}, out, fuel)
       ELSE LET sub == IF H[n].k = "region" THEN IterOrder(H, n, fuel - 1) ELSE <<>>
            IN IterBFS(H, l, rest \o Fwd(H[n]), seen \cup {n}, Append(out, n) \o sub, fuel)

Stage(t, i) == Cases[t].stages[i]
Verdict(t, i) ==
  LET H == Stage(t, i).H
      root == Cases[t].root
      s == [H |-> H, root |-> root, dup |-> Stage(t, i).dup]
      hk == Stage(t, i).hook
      it == IterOrder(H, root, Cardinality(DOMAIN H) + 2)
      lvls == {root} \cup Regions(H)
  IN IF Stage(t, i).dup # <<>> THEN {}
     ELSE (IF hk.iterexc = "" /\ hk.iter # it THEN {"conform:iter"} ELSE {})
          \cup UNION {IF l \in DOMAIN hk.views /\ hk.viewexc[l] = "" /\ hk.views[l] # ViewOrder(H, l) THEN {"conform:view"} ELSE {} : l \in lvls}
          \cup (IF IT_Complete(it, s) /\ IT_Once(it, s) /\ IT_HeadFirst(it, s) THEN {} ELSE {"design:iter"})
          \cup UNION {LET v == ViewOrder(H, l) IN
                      IF VW_Complete(v, l, s) /\ VW_Once(v, l, s) /\ VW_HeadFirst(v, l, s) /\ VW_AfterPred(v, l, s) THEN {} ELSE {"design:view"} : l \in lvls}

Init == /\ tid \in 1..Len(Cases)
        /\ sid \in 1..Len(Cases[tid].stages)
        /\ drift = Verdict(tid, sid)
Next == UNCHANGED <<tid, sid, drift>>
NoDrift == drift = {}
=============================================================================
