------------------------------- MODULE Walk -------------------------------
(***************************************************************************)
(* E4: C01 and the dynamic part of C06 as a native TLC search.             *)
(*                                                                         *)
(* One TLC state is a state of the product                                 *)
(*    original graph  x  restructured hierarchy  x  control-variable       *)
(*    valuation  (x region stack in region-wise mode)                      *)
(* for one recorded (behaviour, stage).  `Next` is one branch decision of  *)
(* the original block `o`; the walk then advances through inserted blocks  *)
(* only, steered solely by the control variables they assign and test, and *)
(* must arrive at the original i-th successor.  The product is finite and  *)
(* explored to fix-point, so ALL decision sequences of unbounded length    *)
(* are covered, and a violation comes with its decision path.              *)
(*                                                                         *)
(* Two walks (the two modes of C01):                                       *)
(*   "name"   - follow every block's own jump targets by name; a region    *)
(*              name resolves to its declared header, recursively;         *)
(*   "region" - region by region: enter at the declared header, leave only *)
(*              from the declared exiting block, continue in the parent at *)
(*              the region's own declared target at the same position;     *)
(*              a declared back edge climbs to the innermost loop region   *)
(*              and re-enters it at its declared header.                   *)
(* C06 (dynamic): Assigned, InRange, table names a successor, LatchFresh.  *)
(***************************************************************************)
EXTENDS Graph, Json, IOUtils

Cases == JsonDeserialize(IOEnv.CASES)

VARIABLES tid, sid, mode, stk, o, env, fresh, bad
vars == <<tid, sid, mode, stk, o, env, fresh, bad>>

G    == Cases[tid].stages[sid].H
O    == Cases[tid].orig
Root == Cases[tid].root
Fuel == 4 * Cardinality(DOMAIN G) + 20

LevelOf(s) == IF s = <<>> THEN Root ELSE s[Len(s)]
InLevel(n, s) == n \in DOMAIN G /\ G[n].up = LevelOf(s)
Pop(s) == SubSeq(s, 1, Len(s) - 1)
TableLookup(tab, v) == LET S == {j \in 1..Len(tab) : tab[j][1] = v} IN IF S = {} THEN "?" ELSE tab[CHOOSE j \in S : TRUE][2]
ApplyAssign(e0, asg) ==
  LET RECURSIVE Go(_, _)
      Go(e, j) == IF j > Len(asg) THEN e
                  ELSE Go([x \in (DOMAIN e) \cup {asg[j][1]} |-> IF x = asg[j][1] THEN asg[j][2] ELSE e[x]], j + 1)
  IN Go(e0, 1)
Latches(v) == {n \in DOMAIN G : G[n].k = "latch" /\ G[n].var = v}
EmptyEnv == [x \in {} |-> 0]

(************************* region-wise primitives **************************)
\* enter: descend through declared headers
RECURSIVE Enter(_, _, _)
Enter(s, n, fuel) ==
  IF fuel = 0 THEN <<"BAD:header-chain-diverges", s, n>>
  ELSE IF ~InLevel(n, s) THEN <<"BAD:not-at-level", s, n>>
  ELSE IF G[n].k = "region" THEN Enter(Append(s, n), G[n].header, fuel - 1) ELSE <<"OK", s, n>>
\* leave: cur (a name at level s) continues at t
RECURSIVE LeaveFwd(_, _, _), LeaveBack(_, _)
LeaveBack(s, cur) ==
  IF s = <<>> THEN <<"BAD:backedge-escapes", s, cur>>
  ELSE LET R == s[Len(s)] IN
       IF G[R].exiting # cur THEN <<"BAD:backedge-from-non-exiting", s, cur>>
       ELSE IF G[R].rk = "loop" THEN <<"OK", s, G[R].header>>   \* re-enter the loop region at its declared header
       ELSE LeaveBack(Pop(s), R)
LeaveFwd(s, cur, t) ==
  IF InLevel(t, s) THEN <<"OK", s, t>>
  ELSE IF t \in SeqSet(G[cur].be) THEN LeaveBack(s, cur)
  ELSE IF s = <<>> THEN <<"BAD:target-nowhere", s, t>>
  ELSE LET R == s[Len(s)] IN
       IF G[R].exiting # cur THEN <<"BAD:leaves-from-non-exiting", s, t>>
       ELSE LET pos == IndexOf(Fwd(G[cur]), t) Rfw == Fwd(G[R]) IN
            IF pos > Len(Rfw) THEN <<"BAD:no-region-target-at-position", s, t>>
            ELSE LeaveFwd(Pop(s), R, Rfw[pos])

(*************************** by-name primitives ****************************)
RECURSIVE Resolve(_, _)
Resolve(n, fuel) ==
  IF fuel = 0 THEN "?diverges"
  ELSE IF n \notin DOMAIN G THEN "?dangling"
  ELSE IF G[n].k = "region" THEN Resolve(G[n].header, fuel - 1) ELSE n

\* Go(m, s, cur, t): from block cur (at stack s) continue at target t.
\* Returns <<"OK", stack, name>> with name a non-region block, or <<"BAD:...">>
Go(m, s, cur, t) ==
  IF m = "name" THEN
     LET r == Resolve(t, Fuel) IN
     IF r = "?dangling" THEN <<"BAD:dangling-target", s, t>>
     ELSE IF r = "?diverges" THEN <<"BAD:header-chain-diverges", s, t>>
     ELSE <<"OK", <<>>, r>>
  ELSE LET l == LeaveFwd(s, cur, t) IN
       IF l[1] # "OK" THEN l ELSE Enter(l[2], l[3], Fuel)

\* advance through inserted blocks to the next original block or the end
RECURSIVE Adv(_, _, _, _, _, _)
Adv(m, s, b, e, fr, fuel) ==
  IF fuel = 0 THEN <<"BAD:diverges">>
  ELSE IF b \in DOMAIN O THEN <<"AT", s, b, e, fr>>
  ELSE IF G[b].k = "assign" THEN
       IF Len(G[b].jt) # 1 THEN <<"BAD:assignment-block-arity">>
       ELSE LET l == Go(m, s, b, G[b].jt[1])
                e2 == ApplyAssign(e, G[b].asg)
                fr2 == fr \cup UNION {Latches(G[b].asg[j][1]) : j \in 1..Len(G[b].asg)}
            IN IF l[1] # "OK" THEN <<l[1]>> ELSE Adv(m, l[2], l[3], e2, fr2, fuel - 1)
  ELSE IF G[b].k \in BranchKinds THEN
       IF G[b].var \notin DOMAIN e THEN <<"BAD:C06-unset">>
       ELSE IF G[b].k = "latch" /\ b \notin fr THEN <<"BAD:C06-latch-not-fresh">>
       ELSE LET tg == TableLookup(G[b].tab, e[G[b].var]) IN
            IF tg = "?" THEN <<"BAD:C06-out-of-range">>
            ELSE IF tg \notin SeqSet(G[b].jt) THEN <<"BAD:C06-table-names-non-successor">>
            ELSE LET l == Go(m, s, b, tg) IN
                 IF l[1] # "OK" THEN <<l[1]>> ELSE Adv(m, l[2], l[3], e, fr \ {b}, fuel - 1)
  ELSE IF G[b].k \notin SynthKinds THEN <<"BAD:unknown-non-original-block">>
  ELSE IF Len(G[b].jt) = 0 THEN <<"STOP", s, b, e, fr>>
  ELSE IF Len(G[b].jt) > 1 THEN <<"BAD:plain-synthetic-block-branches">>
  ELSE LET l == Go(m, s, b, G[b].jt[1]) IN IF l[1] # "OK" THEN <<l[1]>> ELSE Adv(m, l[2], l[3], e, fr, fuel - 1)

Entry == Cases[tid].entry
HeadOfRoot == LET top == {n \in DOMAIN G : G[n].up = Root}
                  hs == {h \in top : \A u \in top : h \notin SeqSet(Fwd(G[u]))}
              IN IF Cardinality(hs) = 1 THEN CHOOSE h \in hs : TRUE ELSE "?"

Start(m) ==
  IF m = "name" THEN
     (IF Entry \in DOMAIN G THEN <<"AT", <<>>, Entry, EmptyEnv, {}>> ELSE <<"BAD:entry-missing">>)
  ELSE IF HeadOfRoot = "?" THEN <<"BAD:no-unique-head">>
  ELSE LET en == Enter(<<>>, HeadOfRoot, Fuel) IN
       IF en[1] # "OK" THEN <<en[1]>> ELSE Adv(m, en[2], en[3], EmptyEnv, {}, Fuel)

Init == /\ tid \in 1..Len(Cases)
        /\ sid \in 1..Len(Cases[tid].stages)
        /\ mode \in {"name", "region"}
        /\ LET r == Start(mode) IN
           IF r[1] = "AT" /\ r[3] = Entry
           THEN stk = r[2] /\ o = r[3] /\ env = r[4] /\ fresh = r[5] /\ bad = "ok"
           ELSE stk = <<>> /\ o = Entry /\ env = EmptyEnv /\ fresh = {} /\ bad = (IF r[1] = "AT" THEN "BAD:starts-elsewhere" ELSE r[1])

Stuck(b) == bad' = b /\ UNCHANGED <<tid, sid, mode, stk, o, env, fresh>>

\* the original block o takes its i-th successor
Decide(i) ==
  IF Len(G[o].jt) # Len(O[o]) THEN Stuck("BAD:arity-changed")
  ELSE LET l == Go(mode, stk, o, G[o].jt[i]) IN
  IF l[1] # "OK" THEN Stuck(l[1])
  ELSE LET r == Adv(mode, l[2], l[3], env, fresh, Fuel) IN
       IF r[1] = "AT" /\ r[3] = O[o][i]
       THEN stk' = r[2] /\ o' = r[3] /\ env' = r[4] /\ fresh' = r[5] /\ bad' = "ok" /\ UNCHANGED <<tid, sid, mode>>
       ELSE Stuck(IF r[1] = "AT" THEN "BAD:wrong-block" ELSE IF r[1] = "STOP" THEN "BAD:stops-early" ELSE r[1])

\* an original exit: execution must stop here, possibly after inserted blocks only
AtExit ==
  IF Len(G[o].jt) = 0 THEN UNCHANGED vars
  ELSE IF Len(G[o].jt) > 1 THEN Stuck("BAD:exit-gained-branches")
  ELSE LET l == Go(mode, stk, o, G[o].jt[1]) IN
       IF l[1] # "OK" THEN Stuck(l[1])
       ELSE LET r == Adv(mode, l[2], l[3], env, fresh, Fuel) IN
            IF r[1] = "STOP" THEN UNCHANGED vars
            ELSE Stuck(IF r[1] = "AT" THEN "BAD:runs-past-the-exit" ELSE r[1])

Next == /\ bad = "ok"
        /\ IF Len(O[o]) = 0 THEN AtExit ELSE \E i \in 1..Len(O[o]) : Decide(i)

Lockstep == bad = "ok"
=============================================================================
