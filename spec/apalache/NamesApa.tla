------------------------------ MODULE NamesApa ------------------------------
(***************************************************************************)
(* Typed copy of Names.tla for Apalache: the inductive-invariant check of  *)
(* C18 (thorough-tier extra).  IndInv = TypeOK /\ Covered is shown to be   *)
(* inductive (Init => IndInv; IndInv /\ Next => IndInv') and to imply that *)
(* the next name of every kind is neither issued nor present (Safe), i.e.  *)
(* Fresh and NoClobber hold in every reachable state for ANY number of     *)
(* steps (counters bounded by MaxIdx only because the name space is a      *)
(* finite set here).                                                       *)
(***************************************************************************)
EXTENDS Integers, FiniteSets

Kinds == {"synth_asign", "loop"}
Flavours == {"block", "region", "var"}
MaxIdx == 3
Plain == {<<"plain", "p", 0>>}

VARIABLES
  \* @type: Str -> Int;
  ctr,
  \* @type: Set(<<Str, Str, Int>>);
  issued,
  \* @type: Set(<<Str, Str, Int>>);
  present,
  \* @type: <<Str, Str, Int>>;
  last

GenNames == Flavours \X Kinds \X (0..MaxIdx)
AllNames == GenNames \cup Plain
None == <<"none", "none", 0>>

\* @type: (Str -> Int, Set(<<Str, Str, Int>>), Str) => Int;
ObsOne(c, N, k) ==
  LET idxs == {n[3] + 1 : n \in {m \in N \cap GenNames : m[2] = k}} \cup {c[k]} IN
  CHOOSE x \in idxs : \A y \in idxs : y <= x
\* @type: (Str -> Int, Set(<<Str, Str, Int>>)) => (Str -> Int);
Observe(c, N) == [k \in Kinds |-> ObsOne(c, N, k)]
Zero == [k \in Kinds |-> 0]

TypeOK == /\ ctr \in [Kinds -> 0..(MaxIdx + 1)]
          /\ issued \in SUBSET GenNames
          /\ present \in SUBSET AllNames
          /\ last \in GenNames \cup {None}
Covered == \A n \in (issued \cup present) \cap GenNames : n[3] < ctr[n[2]]
LastIssued == last = None \/ last \in issued
IndInv == TypeOK /\ Covered /\ LastIssued
Safe == \A f \in Flavours, k \in Kinds : <<f, k, ctr[k]>> \notin (issued \cup present)

Init == /\ present \in SUBSET AllNames
        /\ ctr = Observe(Zero, present)
        /\ issued = {}
        /\ last = None
IndInit == IndInv

Request(f, k) ==
  /\ ctr[k] <= MaxIdx
  /\ last' = <<f, k, ctr[k]>>
  /\ issued' = issued \cup {last'}
  /\ ctr' = [ctr EXCEPT ![k] = @ + 1]
  /\ UNCHANGED present
Use == /\ last # None /\ present' = present \cup {last} /\ UNCHANGED <<ctr, issued, last>>
Remove == \E n \in present : present' = present \ {n} /\ UNCHANGED <<ctr, issued, last>>
Reload == /\ ctr' = Observe(Zero, present) /\ issued' = {} /\ last' = None /\ UNCHANGED present
Next == \/ \E f \in Flavours, k \in Kinds : Request(f, k)
        \/ Use
        \/ Remove
        \/ Reload
=============================================================================
