#!/bin/bash
# usage: confirm_mutant.sh <scratch worktree> <mutant dir name (e.g. m1)> <seeded id>
# Confirms (a) suite passes with the change, (b) demo fails with it, (c) demo passes without it; then stores it under /verif/seeded/<id>/
W=$1; M=$2; ID=$3
set -u
cd "$W" || exit 2
git checkout -q -- numba_scfg
git apply --check MUTANTS/$M/patch.diff || { echo "patch does not apply"; exit 2; }
git apply MUTANTS/$M/patch.diff
A=$(PYTHONPATH=$W /venv/bin/python -m pytest -q -p no:cacheprovider 2>&1 | tail -1)
PYTHONPATH=$W /venv/bin/python MUTANTS/$M/demo.py > /tmp/.demo_with.$$ 2>&1; B=$?
git checkout -q -- numba_scfg
PYTHONPATH=$W /venv/bin/python MUTANTS/$M/demo.py > /tmp/.demo_without.$$ 2>&1; C=$?
echo "suite-with: $A"; echo "demo-with exit: $B"; echo "demo-without exit: $C"
if echo "$A" | grep -q "82 passed" && [ $B -ne 0 ] && [ $C -eq 0 ]; then
  mkdir -p /verif/seeded/$ID
  cp MUTANTS/$M/patch.diff MUTANTS/$M/demo.py /verif/seeded/$ID/
  python3 - "$W/MUTANTS/$M/meta.json" "/verif/seeded/$ID/meta.json" "$A" "$B" "$C" "$(tail -3 /tmp/.demo_with.$$)" <<'PY'
import json,sys
m=json.load(open(sys.argv[1]))
m["confirmed"]={"suite_with_change":sys.argv[3],"demo_exit_with_change":int(sys.argv[4]),"demo_exit_without_change":int(sys.argv[5]),"demo_output_with_change":sys.argv[6],
 "how":"applied patch.diff in a scratch worktree outside /repo and /verif; ran the full pytest suite and demo.py with PYTHONPATH=<worktree>; reverted; ran demo.py again"}
m["base_commit"]="09f1f73"
json.dump(m,open(sys.argv[2],"w"),indent=1)
PY
  echo "CONFIRMED -> /verif/seeded/$ID"
else
  echo "NOT CONFIRMED"; tail -5 /tmp/.demo_with.$$; tail -5 /tmp/.demo_without.$$
fi
rm -f /tmp/.demo_with.$$ /tmp/.demo_without.$$
