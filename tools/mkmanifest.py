#!/usr/bin/env python3
"""Regenerates /verif/MANIFEST.json from the table below (kept in one place so it stays valid)."""
import json, os

HERE = os.path.dirname(os.path.dirname(os.path.abspath(__file__)))
props = [json.loads(l) for l in open(os.path.join(HERE, "properties.jsonl"))]

TRUST = "TLC 1.8 and the CommunityModules Json reader; the harness projection/wrappers (harness/project.py, record.py); CPython as executor of the library."

CHECKS = {
    "C07": dict(cat="model_checking", ref="DESIGN 8/C07",
                text="PySem.tla gives the supported subset a reference semantics over abstract values with an external oracle. TLC enumerates every oracle script of every generated program up to a depth bound (9 quick / 11 thorough); every complete script is executed in CPython (instrumented values) on the original function and on exec(unparse(SCFG2AST(restructured AST2SCFG(f)))); TLC replays every recorded execution through the semantics and compares the sequence of value-creating events and the outcome. Pipeline outcomes are judged too (explicit refusal allowed, internal error or non-compiling output is a violation). In addition (a) every accepted program's flat graph and generated code are abstracted to their control skeleton (opaque statement / test identities) and TLC explores their PRODUCT under all test outcomes to fix-point (Skeleton.tla): all decision paths of unbounded length. Real executions are bounded in script depth; data values abstract. Known findings are matched by EXPLANATION: a disagreement on a program of a documented family counts as that finding only if the execution shows exactly what the specified front end (AstImpl!RunLowered) does on that script. For syntax outside the abstract semantics (harness/exotic.py: unpacking / attribute / subscript targets, chained comparisons, constant tests, lambda, comprehensions, conditional expressions, f-strings, starred / keyword arguments, walrus, elif chains, deep nesting, functions with > 100 blocks) original and regenerated function are executed on a grid of concrete arguments and TLC compares the two recorded executions in lockstep (Equiv.tla).",
                technique="TLC enumeration of behaviours of an executable TLA+ reference semantics (PySem.tla), replayed into the implementation, plus trace validation of the recorded executions"),
    "C08": dict(cat="model_checking", ref="DESIGN 8/C08",
                text="Same reference semantics and scripts as C07; the third execution is a block-by-block interpreter over AST2SCFG's graph exactly as the property defines it (run the block's statements, two successors: evaluate the last expression, first successor if true; stop at a return); TLC compares events and outcome with PySem. Every operand is an oracle event, so side-effecting and raising operands are the default. In addition AstImpl.tla transcribes the front end itself: TLC checks conformance of the transcription with the real graphs and, for every program and script, that the lowered graph means what the reference semantics says (design level). Known findings matched by explanation (AstImpl MODE=explain) and the exotic-syntax corpus compared in lockstep (Equiv.tla), as for C07.",
                technique="TLC enumeration of behaviours of PySem.tla replayed into a block-wise interpretation of the implementation's graph, plus trace validation"),
    "C10": dict(cat="model_checking", ref="DESIGN 8/C10",
                text="For every generated program accepted by the pipeline the output tree of SCFG2AST is taken apart by node identity (statements of every original block, return values, if-tests, control-variable assignments) and TLC (Census.tla) checks the bag equalities: every statement exactly once, every branching test exactly once as an if condition, emitted control assignments = those of the synthetic assignment blocks, no foreign statement; compile() and the set of introduced names are recorded (the reserved-namespace classification is done by the harness). The all-paths product of Skeleton.tla (flat graph x generated code x control-variable valuation, explored to fix-point) covers what a dropped or duplicated statement does on paths no input exercises. The census is taken on a SECOND regeneration from the same restructured graph too (clauses Again/...). CodegenImpl.tla transcribes the code generator (conformance + all-paths on its own output).",
                technique="TLA+ bag predicates (Census.tla) evaluated by TLC on a static census of the implementation's output"),
    "C11": dict(cat="model_checking", ref="DESIGN 8/C11",
                text="Every ast.stmt subclass of the running interpreter outside the supported set (nested def included) is placed at every structural position template, plus non-function inputs and supported control programs; the real AST2SCFG is run on each and TLC (Unsupported.tla) checks outcome = refused / graph and certifies that the recorded cases are exactly the product kinds x positions. A small finite model, stated as such. The positions are a TLA+ grammar, Positions(D): a path of suites (function body; if / else / elif / while / while-else / for / for-else; the suites a constant test makes dead), per suite what precedes the statement (nothing / simple / if / loop, optionally after return / break / continue) and what follows; three input forms (source text, AST list, function object); quick: Positions(1) x 18 kinds (~100 000 conversions), thorough adds Positions(2) for three kinds; TLC certifies the product per kind.",
                technique="TLC check of a finite product model (Unsupported.tla) against outcomes recorded from the implementation"),
    "C12": dict(cat="other", ref="DESIGN 8/C12",
                text="Each input is restructured with full tracing in separate processes under K values of PYTHONHASHSEED (4 quick / 16 thorough); TLC walks the runs in lockstep (Determinism.tla, self-composition) and fails at the first operation whose canonical event - names, ordered deltas, tables, counters, dictionary insertion order - differs. The decisive ingredient is the real multi-process run; TLA+ contributes the lockstep comparison. Design level: Pipeline.tla computes the result from the input graph alone (no hash seed exists in the model); the real code run in separate interpreters under other values of PYTHONHASHSEED must produce exactly the model's result (TracePipeline.tla). QueryImpl.tla explores the dominator work-list under EVERY order in which a set can be pushed.",
                technique="TLC lockstep comparison (2-safety by self-composition, Determinism.tla) of behaviours recorded in separate processes under different hash seeds"),
    "C17": dict(cat="model_checking", ref="DESIGN 8/C17",
                text="After every stage of every behaviour the DOT source of SCFGRenderer (and ByteFlowRenderer for bytecode graphs) is parsed into nodes, cluster tree, solid/dashed edges and label facts; TLC (Props!DrawingOK) checks them against the recorded hierarchy. TLA+ contributes the definition of the expected drawing; the DOT tokenizer is harness code in the trusted base. Statement text of AST blocks is part of the label clause; domain M adds value tables with 11-13 rows, odd variable names and a hand-made hierarchy whose back-edge target is nested twice above its header.",
                technique="TLA+ contract predicate (Props!DrawingOK) evaluated by TLC on drawings recorded from the implementation"),
    "C09": dict(cat="model_checking", ref="DESIGN 8/C09",
                text="TLC (ByteCFG.tla) enumerates every well-formed abstract instruction stream of <=4 (thorough: <=5) instructions and checks the transcription of FlowInfo against the contract (Partition, EntryOnlyAtFirst, LeaveOnlyAfterLast, SuccExact); each stream is instantiated with every conditional / unconditional / returning opcode the interpreter defines and fed to the real FlowInfo; every eligible function of ~100 std-lib modules is built by the real code under Python 3.12 and 3.11 and judged by TLC against the same contract with instruction classes from the interpreter's own opcode metadata. Clause InstrCover: what each block hands out through get_instructions is exactly the instructions of its range, in order. The corpus includes the code objects of lambdas and nested definitions and 22 hand-written functions with rare bytecode shapes.",
                technique="TLC small-scope model checking of ByteCFG.tla plus trace validation of (instruction stream, built blocks) pairs recorded from the implementation"),
    "C18": dict(cat="model_checking", ref="DESIGN 8/C18",
                text="TLC model-checks the generator state machine (Names.tla) for Fresh, NoClobber and the inductive invariant Covered over all interleavings of requests, uses, removals and reloads from every small input (names inside the generator namespace included); every name the real generator hands out inside real restructure behaviours - plain, with a to_dict/from_dict round trip between stages, and on inputs named inside the generator's namespace - is validated by TLC step by step (NamesTrace.tla). Inputs include graphs built around a generator that has already served another graph.",
                technique="TLC model checking of Names.tla plus trace validation (NamesTrace.tla) of generator calls recorded from the implementation"),
    "C01": dict(cat="model_checking", ref="DESIGN 8/C01",
                text="Native TLC search (Walk.tla) of the product original graph x restructured hierarchy x control-variable valuation for every recorded stage state of every behaviour, in by-name and region-wise mode, to fix-point: all decision sequences of unbounded length per instance; instances: all closed CFGs <=4 nodes, 5-node ones modulo relabelling, seeded random larger ones, std-lib bytecode CFGs. In addition, design level: ModelDump.tla writes the hierarchies that the pipeline model (Pipeline.tla, whose results equal the real code's name for name) builds from EVERY closed CFG with <=4 (thorough: <=5) nodes, and the same product exploration runs on them. A walk that cannot be steered (control variable unset / out of range / stale) is reported as a lost path too. Domain K adds dense random graphs that need >=3 head unifications.",
                technique="TLC state-space exploration of a TLA+ product machine (Walk.tla) built from states recorded from the implementation ; the same exploration on the hierarchies computed by the pipeline model (ModelDump.tla / Pipeline.tla)"),
    "C02": dict(cat="model_checking", ref="DESIGN 8/C02",
                text="The real pipeline is run (each stage separately, with a time cap) on every closed CFG with <=5 nodes, on seeded random larger ones and on std-lib bytecode CFGs; TLC (Accept.tla) judges every recorded outcome (NeverFails, Terminates, Completes), checks every graph against the TLA+ domain definition and certifies that the <=4-node (thorough: <=5-node) inputs are exactly ClosedCFG(N). Conformance: every primitive against its Impl transcription (TraceRestructure.tla) and - whole runs, nothing bound from the log - the result of every stage computed by TLC from the input alone (Pipeline.tla: dict order, vendored Tarjan emission order, iter_subregions order) equals the recorded state, names and counters included (TracePipeline.tla). E1: Restructure.tla model-checks that same pipeline model from every closed CFG with <=4 (thorough: <=5) nodes. Four very long / very deep graphs are restructured under the interpreter's default recursion limit; domain L.",
                technique="TLC evaluation of the trace-end invariant on recorded behaviours plus TLC certification of the exhaustive input domain defined in TLA+ (Accept.tla, Graph!ClosedCFG) ; model checking of the pipeline model (Restructure.tla, Pipeline.tla) whose results are validated equal to the implementation's (TracePipeline.tla)"),
    "C06": dict(cat="model_checking", ref="DESIGN 8/C06",
                text="TablesAgree evaluated by TLC on every recorded stage state; unset / out-of-range / non-successor / stale-latch control variables searched by TLC over the whole product state space of Walk.tla (the valuation is part of the state, so all reachable valuations on all paths are covered per instance). Also on histories with a to_dict/from_dict round trip between the stages, on the hierarchies of the pipeline model (design level, ModelDump.tla) and on domain K (>=3 head unifications).",
                technique="TLC exploration of Walk.tla (valuation in the state) plus Props!TablesAgree on recorded states"),
    "C13": dict(cat="model_checking", ref="DESIGN 8/C13",
                text="Every query of the library is run on every digraph of the exhaustive domains Q(1,3), Q(2,3), Q(3,2) (thorough: Q(3,3)) and on random larger graphs with external targets and declared back edges, for every subset / pair argument; TLC (Queries.tla) compares each recorded result with the path/set-based definition and certifies that the recorded domain is the whole TLA+ set. Impl layer (Algo.tla / QueryImpl.tla): the vendored iterative Tarjan, the DFS and _imm_doms are transcribed and checked by TLC against the definitions on every graph of QDomain(n,d) enumerated by TLC itself; the dominator work-list is a state machine whose pushes take every order (assertion never trips, terminal states = path-based dominators); the emission order of the real compute_scc equals the transcription's. The two subset queries are also asked of the sub-graphs of regions inside restructured hierarchies (entries looked up level by level towards the root).",
                technique="TLA+ definitions (Queries.tla, Graph.tla) as oracle, evaluated by TLC on results recorded from the implementation; exhaustive small scope"),
    "C14": dict(cat="model_checking", ref="DESIGN 8/C14",
                text="TLC explores all histories of edit operations (Edit.tla: Impl transcription as step, EditPost contract on every transition) over every level and every ordered (P,S) choice from seed states recorded from the code; every generated state is replayed into real SCFG objects and compared (0 drift on the unchanged tree); transitions the code does not reproduce, and every edit-primitive call made by the real pipeline on the restructure domain, are judged by TLC against the contract on the real pre/post states (EditTrace.tla). Seeds always include a two-header loop, a two-exit loop and hand-made states (a target that is the back edge of one predecessor and the forward target of others; a head table with a shared target).",
                technique="TLC model checking of edit histories (Impl => Post), replay of TLC behaviours into the implementation, trace validation of recorded primitive calls"),
    "C15": dict(cat="model_checking", ref="DESIGN 8/C15",
                text="Write-read-write-read chains through to_dict/from_dict and to_yaml/from_yaml are recorded after every stage of every behaviour (plain and bytecode blocks, flat and restructured); TLC (RoundTrip.tla) checks that the re-read graph is the same abstract state (types, payload, ordered successors, back edges, tables, assignments, nesting, header, exiting, recorded parents), that the second dictionary equals the first and that the second read equals the first. Block names include YAML-sensitive words and characters that need quoting. Impl layer (SerialImpl.tla): DumpOf(H) equals the dictionary the real writer produced, LoadOf of it equals the re-read graph including the dict order of every level, and on the pipeline model's hierarchies Load . Dump is the identity (design level).",
                technique="TLA+ stuttering contract (RoundTrip.tla) evaluated by TLC on round trips recorded from the implementation"),
    "C16": dict(cat="model_checking", ref="DESIGN 8/C16",
                text="After every stage of every behaviour, list(scfg) and the concealed view of the root and of every sub-region at every depth are recorded and checked by TLC against the contract IterOK / ViewOK (Props.tla). Also on graphs EDITED after restructuring: one-step edit histories enumerated by TLC (Edit.tla) are replayed on real objects and judged by EditViews.tla. Impl layer (ViewImpl.tla): transcriptions of both iterators satisfy the contract and give exactly the recorded order. Views are also started at an explicit head from every item of every small level (ViewFromHead) and view objects kept from the previous stage are iterated again (ViewHeldAcrossStage). Domain M (hand-made hierarchies).",
                technique="TLA+ contract predicates evaluated by TLC on observations recorded from the implementation (trace validation, exhaustive small scope)"),
    "C03": dict(cat="model_checking", ref="DESIGN 8/C03",
                text="TLC evaluates the Structured clauses (Props.tla) on the final state of every behaviour recorded from the real code over all closed CFGs with <=4 nodes, 5-node ones modulo relabelling, seeded random larger ones and std-lib bytecode CFGs; small-scope exhaustive plus per-instance checking, not a proof. LoopBackEdge requires the back edge to be an edge of the latch, to name the loop's header (chain) and to be visible from the latch's level. Design level: Restructure.tla checks the same clauses on the pipeline model from every closed CFG <=4 (thorough <=5) nodes. Domain K added.",
                technique="TLA+ contract predicates (Props!Structured) evaluated by TLC on states recorded from the implementation (trace validation, exhaustive small scope)"),
    "C04": dict(cat="model_checking", ref="DESIGN 8/C04",
                text="TLC evaluates the WellFormed clauses (Props.tla) on the state after every stage of every recorded behaviour (same domains as C03); the first stage that breaks consistency is named. Clause BackPointer: the region recorded by a region's own sub-graph (SCFG.region) must describe the live region block (name, kind, header, exiting, targets, parent). Domains L (names whose string order differs from the numeric one), K (control-heavy), V (stages driven through the sub-graph objects of the top-level regions).",
                technique="TLA+ contract predicates (Props!WellFormed) evaluated by TLC on every recorded stage state (trace validation, exhaustive small scope)"),
    "C05": dict(cat="model_checking", ref="DESIGN 8/C05",
                text="TLC evaluates Conserved(orig, H) (Props.tla) between the input and every later stage state of every recorded behaviour, with plain and bytecode payloads.",
                technique="TLA+ contract predicate (Props!Conserved) evaluated by TLC on recorded stage states (trace validation, exhaustive small scope)"),
}

NA_REASON = "check not built yet in this session (specification and harness under construction; see DESIGN section 13 build order)"

checks = []
na = []
for p in props:
    pid = p["id"]
    if pid in CHECKS:
        c = CHECKS[pid]
        checks.append({
            "property_id": pid,
            "quick_cmd": "./check %s --tier quick" % pid,
            "thorough_cmd": "./check %s --tier thorough" % pid,
            "evidence_file": "/verif/evidence/%s.json" % pid,
            "replay_cmd_template": "./check %s --replay {path}" % pid,
            "engine": "tlc",
            "level_claimed": {"category": c["cat"], "text": c["text"], "design_ref": c["ref"]},
            "level_note": c.get("note", TRUST),
            "technique": c["technique"],
        })
    else:
        na.append({"property_id": pid, "reason": NA_REASON})

man = {
    "version": 1,
    "setup_cmd": "./setup.sh",
    "hooks": {
        "guard": "NUMBA_SCFG_VERIF",
        "enable": "no source change in /repo is needed: the tracer wraps the library's mutators from the harness (harness/record.py) when ./check runs (which sets NUMBA_SCFG_VERIF=1); /repo is imported from its working tree on every run",
        "baseline_off_cmd": "cd /repo && /venv/bin/python -m pytest -ra -q -p no:cacheprovider --timeout=900 --continue-on-collection-errors",
        "source_commits": [],
        "add_only": True,
    },
    "engines": [
        {"name": "tlc", "path": "/verif/spec", "serves_properties": sorted(CHECKS), "kind_free_text": "explicit TLA+ specification family checked with TLC 1.8; bound to the code by trace validation (code -> spec) and behaviour replay (spec -> code)"},
    ],
    "checks": checks,
    "not_applicable": na,
    "notes": "Entry point ./check <id> [--tier quick|thorough] [--seed N] [--replay path]; exit 0 ok, 1 VIOLATION, 2 machinery failure. Known findings: /verif/known_findings.json.",
}
json.dump(man, open(os.path.join(HERE, "MANIFEST.json"), "w"), indent=1)
print("checks:", len(checks), "not_applicable:", len(na))
