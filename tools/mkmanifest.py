#!/usr/bin/env python3
"""Regenerates /verif/MANIFEST.json from the table below (kept in one place so it stays valid)."""
import json, os

HERE = os.path.dirname(os.path.dirname(os.path.abspath(__file__)))
props = [json.loads(l) for l in open(os.path.join(HERE, "properties.jsonl"))]

TRUST = "TLC 1.8 and the CommunityModules Json reader; the harness projection/wrappers (harness/project.py, record.py); CPython as executor of the library."

CHECKS = {
    "C03": dict(cat="model_checking", ref="DESIGN 8/C03",
                text="TLC evaluates the Structured clauses (Props.tla) on the final state of every behaviour recorded from the real code over all closed CFGs with <=4 nodes, 5-node ones modulo relabelling, seeded random larger ones and std-lib bytecode CFGs; small-scope exhaustive plus per-instance checking, not a proof.",
                technique="TLA+ contract predicates (Props!Structured) evaluated by TLC on states recorded from the implementation (trace validation, exhaustive small scope)"),
    "C04": dict(cat="model_checking", ref="DESIGN 8/C04",
                text="TLC evaluates the WellFormed clauses (Props.tla) on the state after every stage of every recorded behaviour (same domains as C03); the first stage that breaks consistency is named.",
                technique="TLA+ contract predicates (Props!WellFormed) evaluated by TLC on every recorded stage state (trace validation, exhaustive small scope)"),
    "C05": dict(cat="model_checking", ref="DESIGN 8/C05",
                text="TLC evaluates Conserved(orig, H) (Props.tla) between the input and every later stage state of every recorded behaviour, with plain and bytecode payloads.",
                technique="TLA+ contract predicate (Props!Conserved) evaluated by TLC on recorded stage states (trace validation, exhaustive small scope)"),
}

NA_REASON = "check not built yet in this session (specification and harness under construction; see DESIGN section 13 build order)"

checks = []
na = []
for p in props:
    pid = p["id"]
    if pid in CHECKS:
        c = CHECKS[pid]
        checks.append({
            "property_id": pid,
            "quick_cmd": "./check %s --tier quick" % pid,
            "thorough_cmd": "./check %s --tier thorough" % pid,
            "evidence_file": "/verif/evidence/%s.json" % pid,
            "replay_cmd_template": "./check %s --replay {path}" % pid,
            "engine": "tlc",
            "level_claimed": {"category": c["cat"], "text": c["text"], "design_ref": c["ref"]},
            "level_note": c.get("note", TRUST),
            "technique": c["technique"],
        })
    else:
        na.append({"property_id": pid, "reason": NA_REASON})

man = {
    "version": 1,
    "setup_cmd": "./setup.sh",
    "hooks": {
        "guard": "NUMBA_SCFG_VERIF",
        "enable": "no source change in /repo is needed: the tracer wraps the library's mutators from the harness (harness/record.py) when ./check runs (which sets NUMBA_SCFG_VERIF=1); /repo is imported from its working tree on every run",
        "baseline_off_cmd": "cd /repo && /venv/bin/python -m pytest -ra -q -p no:cacheprovider --timeout=900 --continue-on-collection-errors",
        "source_commits": [],
        "add_only": True,
    },
    "engines": [
        {"name": "tlc", "path": "/verif/spec", "serves_properties": sorted(CHECKS), "kind_free_text": "explicit TLA+ specification family checked with TLC 1.8; bound to the code by trace validation (code -> spec) and behaviour replay (spec -> code)"},
    ],
    "checks": checks,
    "not_applicable": na,
    "notes": "Entry point ./check <id> [--tier quick|thorough] [--seed N] [--replay path]; exit 0 ok, 1 VIOLATION, 2 machinery failure. Known findings: /verif/known_findings.json.",
}
json.dump(man, open(os.path.join(HERE, "MANIFEST.json"), "w"), indent=1)
print("checks:", len(checks), "not_applicable:", len(na))
