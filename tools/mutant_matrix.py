#!/venv/bin/python
"""usage: mutant_matrix.py [--par N] [--tier quick] <seeded id>[:<check>,<check>...] ...
Runs the named checks (default: the check of the property the change was written against) on each seeded change in a scratch
worktree outside /repo and /verif (removed afterwards), never touching /repo, and prints one line per (change, check)."""
import concurrent.futures as cf
import os
import shutil
import subprocess
import sys

VERIF = os.path.dirname(os.path.dirname(os.path.abspath(__file__)))


import itertools
_ctr = itertools.count()


def one(mid: str, checks, tier: str):
    wt = "/tmp/verif-mm-%s-%d-%d" % (mid, os.getpid(), next(_ctr))
    subprocess.run(["git", "-C", "/repo", "worktree", "add", "-q", "--detach", wt, "HEAD"], check=True)
    out = []
    try:
        a = subprocess.run(["git", "-C", wt, "apply", os.path.join(VERIF, "seeded", mid, "patch.diff")], capture_output=True, text=True)
        if a.returncode != 0:
            return [(mid, "-", "PATCH DOES NOT APPLY: " + a.stderr.strip()[:200])]
        for chk in checks:
            r = subprocess.run([os.path.join(VERIF, "check"), chk, "--tier", tier], env=dict(os.environ, VERIF_REPO=wt, VERIF_KEEP_EVIDENCE="1"),
                               capture_output=True, text=True)
            viol = [ln for ln in r.stdout.splitlines() if ln.startswith("VIOLATION property=%s" % chk)]
            drift = [ln for ln in r.stdout.splitlines() if ln.startswith("DRIFT")]
            tail = (r.stdout.strip().splitlines() or [""])[-1]
            mach = [ln for ln in r.stderr.splitlines() if "MACHINERY" in ln]
            verdict = "CAUGHT" if r.returncode == 1 and viol else ("MACHINERY" if r.returncode == 2 else "missed")
            clauses = sorted({v.split("clause=")[-1] for v in viol})[:4]
            out.append((mid, chk, "%s exit=%d viol=%d %s drift=%d | %s %s" % (verdict, r.returncode, len(viol), clauses, len(drift), tail, mach[:1])))
    finally:
        subprocess.run(["git", "-C", "/repo", "worktree", "remove", "--force", wt])
        shutil.rmtree(wt, ignore_errors=True)
    return out


def main():
    args = sys.argv[1:]
    par, tier = 2, "quick"
    while args and args[0].startswith("--"):
        if args[0] == "--par":
            par = int(args[1])
        elif args[0] == "--tier":
            tier = args[1]
        args = args[2:]
    jobs = []
    for a in args:
        mid, _, cs = a.partition(":")
        jobs.append((mid, cs.split(",") if cs else [mid.split("-")[0]]))
    with cf.ThreadPoolExecutor(par) as ex:
        for res in ex.map(lambda j: one(j[0], j[1], tier), jobs):
            for mid, chk, line in res:
                print("%-8s %-4s %s" % (mid, chk, line), flush=True)


if __name__ == "__main__":
    main()
