#!/bin/bash
# usage: reconfirm_all.sh [ids...]   Re-confirms every seeded change against /repo's CURRENT HEAD in a scratch worktree (removed afterwards):
# patch applies, the 82 tests pass with it, demo.py fails with it and passes without it.
W=/tmp/verif-reconfirm-$$
git -C /repo worktree add -q --detach $W HEAD || exit 2
trap 'git -C /repo worktree remove --force '$W EXIT
cd $W
ids="$@"; [ -z "$ids" ] && ids=$(ls /verif/seeded)
for id in $ids; do
  d=/verif/seeded/$id
  [ -f $d/patch.diff ] || continue
  git checkout -q -- . ; git clean -fdq
  if ! git apply --check $d/patch.diff 2>/dev/null; then echo "$id DOES-NOT-APPLY"; continue; fi
  git apply $d/patch.diff
  A=$(PYTHONPATH=$W /venv/bin/python -m pytest -q -p no:cacheprovider 2>&1 | tail -1)
  PYTHONPATH=$W timeout 600 /venv/bin/python $d/demo.py > /dev/null 2>&1; B=$?
  git checkout -q -- .
  PYTHONPATH=$W timeout 600 /venv/bin/python $d/demo.py > /dev/null 2>&1; C=$?
  if echo "$A" | grep -q "^82 passed" && [ $B -ne 0 ] && [ $C -eq 0 ]; then echo "$id ok"; else echo "$id NOT-CONFIRMED suite='$A' demo-with=$B demo-without=$C"; fi
done
