#!/bin/bash
# usage: run_on_mutant.sh <seeded id> <check id>...   (applies the patch to /repo, runs the quick checks, always reverts)
ID=$1; shift
cd /repo || exit 2
if ! git diff --quiet; then echo "/repo has uncommitted changes"; exit 2; fi
git apply /verif/seeded/$ID/patch.diff || { echo "patch does not apply"; exit 2; }
trap 'git -C /repo checkout -- .' EXIT
cd /verif
for c in "$@"; do
  out=$(./check $c --tier quick 2>&1); rc=$?
  echo "== $ID / $c : exit $rc"; echo "$out" | grep -E "VIOLATION|MACHINERY|DRIFT|KNOWN" | head -4; echo "$out" | tail -1
done
