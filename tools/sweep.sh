#!/bin/bash
# usage: tools/sweep.sh <tier> <id>...   runs the named checks one after the other and prints "<id> exit=<n> wall=<s>s" per check
tier=$1; shift
cd "$(dirname "$0")/.."
for p in "$@"; do
  s=$(date +%s)
  ./check $p --tier $tier > sweep_${tier}_$p.log 2>&1
  e=$?
  echo "$p exit=$e wall=$(( $(date +%s) - s ))s"
  grep -E "^VIOLATION|MACHINERY" sweep_${tier}_$p.log | head -3
  rm -f sweep_${tier}_$p.log
done
