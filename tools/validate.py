#!/opt/veriftools/pyvenv/bin/python
"""Validates MANIFEST.json and every evidence file against the task's schemas (jsonschema from the tooling venv)."""
import glob
import json
import os
import sys

import jsonschema

VERIF = os.path.dirname(os.path.dirname(os.path.abspath(__file__)))
bad = 0
man = json.load(open(os.path.join(VERIF, "MANIFEST.json")))
try:
    jsonschema.validate(man, json.load(open("/root/.vp/MANIFEST.schema.json")))
except jsonschema.ValidationError as e:
    bad += 1
    print("MANIFEST.json:", e.message[:300])
es = json.load(open("/root/.vp/EVIDENCE.schema.json"))
files = sorted(glob.glob(os.path.join(VERIF, "evidence", "C*.json")))
for f in files:
    try:
        jsonschema.validate(json.load(open(f)), es)
    except jsonschema.ValidationError as e:
        bad += 1
        print(os.path.basename(f) + ":", e.message[:300])
print("manifest + %d evidence files: %s" % (len(files), "valid" if not bad else "%d INVALID" % bad))
sys.exit(1 if bad else 0)
